#!/usr/bin/env python3
"""Rewrites section 13.6 of DESIGN.md (the seeded-changes matrix) from seeded/*/meta.json."""
import json, os
V = os.path.dirname(os.path.dirname(os.path.abspath(__file__)))
rows = []
for d in sorted(os.listdir(os.path.join(V, "seeded"))):
    m = json.load(open(os.path.join(V, "seeded", d, "meta.json")))
    h = m["history"]
    first = "yes" if h.startswith("caught at once") else ("partly" if h.startswith("detected at first") else "no")
    rows.append((d, m["property"], m.get("round", 1), m["needs_to_manifest"], first, h, m.get("tier", "quick")))
by_round = {}
for r in rows:
    by_round.setdefault(r[2], []).append(r)
summary = ", ".join("round %d: %d of %d" % (k, sum(1 for r in v if r[4] == "yes"), len(v)) for k, v in sorted(by_round.items()))
text = """## 13.6 Seeded changes: which check catches which

%d changes to gregoryv/mq were written by fresh sub-agents in %d rounds. Each agent saw only the
text of one or two properties and a scratch git worktree of `/repo` (nothing from `/verif`), and had to
deliver a patch that still builds and passes the 66 existing tests, needs something specific to
manifest, and comes with a demonstration test. From round 2 on the agents were asked for combinations
of conditions rather than single boundary values; in round 4 they were asked to aim at what a large
randomized and boundary-value campaign would still miss; in rounds 5 and 6 for plausible refactorings,
optimisations and well-meant extra checks whose flaw needs a particular interleaving, fault point,
multi-step sequence, unusual input or two cooperating code sites; in round 7 for small edits to existing lines; in round 8
for both kinds; in round 9 the agents were also told what kind of campaign the change has to slip through; in round 10 they were
asked for changes a real maintainer could plausibly make and a reviewer accept (no contrived machinery), which is the round
that says most about ordinary use: 23 of 24 were caught by the committed state; round 11 (three changes, one each for C04, C15
and C16, written after the last change to the checks) was run against the final state with nothing strengthened afterwards:
all three were caught; round 12 (six changes for C06, C07, C08, C10, C12 and C14, agents briefed as in round 9) is described
in section 13.5c. Every change was confirmed here with
`tools/confirmseed` (patch applies to HEAD; builds; existing tests pass with it; demonstration passes
without and fails with it) before it was kept under `seeded/<id>/` (`patch.diff`, `demo_test.go.txt`,
the agent's `README.md`, `meta.json`). The checks were run against each change in a scratch copy of
`/repo` (`tools/tryseed`, `VERIF_REPO`); `/repo` itself was never modified. Rounds 2 to 12 were first
run against the committed state *before* any strengthening (a `vp run` snapshot), so "caught at first"
is an honest measure of what the machinery detected unprompted: %s.
Every miss was analysed, the generators or the attribution of notes were strengthened (never a verdict
loosened), the unchanged tree was re-checked for false alarms, and all of them are detected now
(`bin/selftest --seeds` re-runs the whole matrix) - except three changes of round 9 and one of round 12 that stay undetected and are kept on
record as limits (section 13.5b: a 32-bit hash collision, a 256 MiB frame, an allocation below the slack of the bound; section
13.5c: an accessor's slice fed back into a setter of the same packet). Six
changes need the thorough tier because they only manifest on frames above 1 MiB or at one exact size (C07-r4a, C03-r5a,
C07-r6, C03-r9d, C08-r9b, C10-r9b; of round 12 also C07-r12 and C08-r12). The falling rate of "caught at first"
from round to round is the point of the exercise: each round was asked to evade what the earlier rounds
had taught the machinery, and every miss became a new generator dimension or a sharper rule.

Re-verification at the end (`bin/selftest --seeds`, in pieces because of its length): after the last generator changes 107
of the 230 changes of rounds 1 to 10 were run again against the final checks (every change aimed at C01, C02, C10, C11 and C15 to C19) and the other
rounds-1-to-7 changes against the state of commit `47bd4a9`; one regression showed (C01-r8c had slipped through the quick-tier
thinning of the `apifull` programs) and was repaired, everything else was detected. The changes of rounds 8 to 10 were each run
against the strengthened checks when they were recorded.

What the misses taught, by theme:

* **Values, not only shapes.** A single sample value per wire type hid width-boundary slips
  (C01-1); variable byte integers now take both sides of every width boundary everywhere.
* **Mutants must cover every position of a construct**: five-byte integers at every
  variable-byte-integer position with a harmless fifth byte (C09-1), properties that are defined but
  foreign to the packet (C05-r2b, C04-r3b), repeated properties with an empty second value (genuine
  defect F13), retyped frames (C06-r2a), structurally valid but semantically odd bases such as empty
  filters inside a list (C01-r4b, C09-r4a), non-minimal remaining lengths (C07-r4b).
* **Size classes.** Writer faults, delivery schedules and transport faults on frames with two- and
  three-byte remaining lengths (C10-1, C07-r2b, C08-r2b), lists with thousands of elements together
  with an allocation sensor (C05-r4b), frames above 1 MiB (C07-r4a, thorough tier).
* **Histories with read-only operations in the middle** (C10-r2b), **decoding into a packet that
  already holds values** (C14-1, C05-r2a, C18-r3b, C11-r3a, C02-r4b) and **re-observing earlier
  packets after later reads** (C06-r4b, C16-r4a).
* **What the caller keeps.** The driver passed fresh arguments to every call, so aliasing with
  caller-kept values was invisible: a TopicFilter value renamed after it was added (C12-r4a), a slice
  passed with `...` and reused (C02-r4a), an accessor's slice forwarded into new packets (C14-r4b), the
  same will attached again after being completed (C12-r4b, C01-r4a). The model now treats the will as
  a reference and the driver has value handles (`NewFilter`, `Slice`, `CallSpread`).
* **First use under concurrency** (C13-1, C13-r3a) and **per-goroutine inputs** (C13-r3b).
* **Reproducibility of the driver.** Workers run on one P (except for C13) so that `sync.Pool`
  reuse, which one change depended on (C06-r4b), is the same from run to run.
* **Attribution.** Several changes were seen by the trace specification but booked under a
  neighbouring property (C06-1, C06-r2b, C15-r3a, C11-r3a, C19-r2b, C12-r4b, C16-r4a/b); notes are
  attributed by what the statement of each property says (under-read without a short read = C06; a
  frame of a sequence not returned or an earlier packet of the stream changed = C06; wrong subscription
  identifier = C15 as well as C03; an Undefined that lost its bytes = C16; the frame of a setter
  history = C12; a hang is booked to the operation that hung).

* **State left behind** (rounds 5 and 6). Caches filled by an earlier `WriteTo` / `String` (C02-r5a,
  C10-r6), setter order (C01-r5b), edits through the slice an accessor returned (C10-r5a, C17-r5b),
  packets decoded then modified, values decoded into twice, frames read after the caller overwrote what an
  accessor handed out (C03-r6), packets that keep growing while later frames are read (C05-r6), pooled
  buffers after a failed write (C18-r6b) or a failed read (C13-r6): `MC_API` now also starts from a packet
  carrying every field, written or printed before (`apifull`), and from the decoded packet (`apidec`);
  long streams with one packet kept (`seqlong`); faults before the concurrent phase.
* **The environment is part of the input.** `ReadPacket` through `*bufio.Reader` of default and minimal
  size, `bytes.Reader`, `bytes.Buffer`, `strings.Reader`, `io.LimitedReader`, a reader with `ReadByte`
  (C08-r5a, C06-r6, C16-r6); writers that also offer `WriteByte` / `WriteString` / `ReadFrom`; the
  streaming integer decoder under zero-length reads and `io.EOF` with the last byte (C15-r6).
* **Content, not only shape.** Texts MQTT gives a meaning to, every UTF-8 sequence length, texts that
  mean something to formatters or repeat parts of the rendering, in every text field of every packet
  type (C17-r5a, C03-r5b, C19-r5a/b, C18-r5a/b): `DictTexts` x `TextPkts`.
* **The oracle itself.** A frame with a property that is defined but foreign to the packet was "either";
  a must-reject fault *behind* such a property makes it must-reject for every decoder (C09-r6): the
  verdict now also takes the lenient reading (`MQTTWire!LenientDecode`).
* **Panics while observing** are events of their own (C19-r5a), and "what was set" (`wanted`) is kept apart
  from the model state that is re-synchronised after a C12 divergence (C01-r5b).

| seeded change | property | needs to manifest | caught at first | history |
|---|---|---|---|---|
""" % (len(rows), len(by_round), summary)
for r in rows:
    text += "| %s | %s | %s | %s | %s |\n" % (r[0], r[1], r[3].replace("|", "/"), r[4], r[5].replace("|", "/"))
d = open(os.path.join(V, "DESIGN.md")).read()
i = d.index("## 13.6 Seeded changes")
open(os.path.join(V, "DESIGN.md"), "w").write(d[:i] + text)
print(summary)
