#!/usr/bin/env python3
"""Generates spec/MQLibText.tla: the literal texts of the library's renderings as byte tuples
(TLA+ has no string-to-bytes operator). Part of the as-built layer (MQLib): these are what the library prints today."""
import os
V = os.path.dirname(os.path.dirname(os.path.abspath(__file__)))
types = ["UNDEFINED", "CONNECT", "CONNACK", "PUBLISH", "PUBACK", "PUBREC", "PUBREL", "PUBCOMP", "SUBSCRIBE", "SUBACK",
         "UNSUBSCRIBE", "UNSUBACK", "PINGREQ", "PINGRESP", "DISCONNECT", "AUTH"]
reasons = {0: "Success", 1: "GrantedQoS1", 2: "GrantedQoS2", 4: "DisconnectWithWill", 16: "NoMatchingSubscribers",
           17: "NoSubscriptionExisted", 24: "ContinueAuth", 25: "ReAuthenticate", 128: "UnspecifiedError", 129: "MalformedPacket",
           130: "ProtocolError", 131: "ImplementationSpecificError", 132: "UnsupportedProtocolVersion",
           133: "ClientIdentifierNotValid", 134: "BadUserNameOrPassword", 135: "NotAuthorized", 136: "ServerUnavailable",
           137: "ServerBusy", 138: "Banned", 139: "ServerShuttingDown", 140: "BadAuthenticationMethod", 141: "KeepAliveTimeout",
           142: "SessionTakenOver", 143: "TopicFilterInvalid", 144: "TopicNameInvalid", 145: "PacketIdentifierInUse",
           146: "PacketIdentifierNotFound", 147: "ReceiveMaximumExceeded", 148: "TopicAliasInvalid", 149: "PacketTooLarge",
           150: "MessageRateToHigh", 151: "QuotaExceeded", 152: "AdministrativeAction", 153: "PayloadFormatInvalid",
           154: "RetainNotSupported", 155: "QoSNotSupported", 156: "UseAnotherServer", 157: "ServerMoved",
           158: "SharedSubscriptionsNotSupported", 159: "ConnectionRateExceeded", 160: "MaximumConnectTime",
           161: "SubscriptionIdentifiersNotSupported", 162: "WildcardSubscriptionsNotSupported"}
lits = {"Bytes": " bytes", "TopicColon": "topic:", "Malformed": ", malformed! ", "ReasonCodeOpen": "ReasonCode(",
        "EmptyTopicName": "empty topic name", "EmptyPacketID": "empty packet ID", "InvalidQoS": "invalid QoS",
        "NoFilters": "no filters", "TooLargeSubID": "too large sub ID", "EmptyFilter": "empty filter",
        "NoFiltersBang": "no filters!"}


# Dump (as built): per packet type the lines "Label: value" in the order the library prints them; f = how the value is
# formatted: v = %v, q = %q of a string, qb = %q of string(bytes), sq / sv = the mask for a credential (%q / %v)
DUMP = {
 1: [("AuthData", "AuthData", "v"), ("AuthMethod", "AuthMethod", "v"), ("CleanStart", "CleanStart", "v"), ("ClientID", "ClientID", "v"),
     ("KeepAlive", "KeepAlive", "v"), ("MaxPacketSize", "MaxPacketSize", "v"), ("Password", "Password", "sq"),
     ("ProtocolName", "ProtocolName", "v"), ("ProtocolVersion", "ProtocolVersion", "v"), ("ReceiveMax", "ReceiveMax", "v"),
     ("RequestProblemInfo", "RequestProblemInfo", "v"), ("RequestResponseInfo", "RequestResponseInfo", "v"),
     ("SessionExpiryInterval", "SessionExpiryInterval", "v"), ("TopicAliasMax", "TopicAliasMax", "v"), ("Username", "Username", "sv")],
 2: [("AssignedClientID", "AssignedClientID", "q"), ("AuthData", "AuthData", "qb"), ("AuthMethod", "AuthMethod", "q"),
     ("MaxPacketSize", "MaxPacketSize", "v"), ("MaxQoS", "MaxQoS", "v"), ("ReasonCode", "ReasonCode", "v"), ("ReasonString", "ReasonString", "q"),
     ("ReceiveMax", "ReceiveMax", "v"), ("ResponseInformation", "ResponseInformation", "q"), ("RetainAvailable", "RetainAvailable", "v"),
     ("ServerKeepAlive", "ServerKeepAlive", "v"), ("ServerReference", "ServerReference", "q"),
     ("SessionExpiryInterval", "SessionExpiryInterval", "v"), ("SessionPresent", "SessionPresent", "v"),
     ("SharedSubAvailable", "SharedSubAvailable", "v"), ("SubIdentifiersAvailable", "SubIdentifiersAvailable", "v"),
     ("TopicAliasMax", "TopicAliasMax", "v"), ("WildcardSubAvailable", "WildcardSubAvailable", "v")],
 3: [("ContentType", "ContentType", "v"), ("CorrelationData", "CorrelationData", "v"), ("Duplicate", "Duplicate", "v"),
     ("MessageExpiryInterval", "MessageExpiryInterval", "v"), ("PacketID", "PacketID", "v"), ("Payload", "Payload", "v"),
     ("PayloadFormat", "PayloadFormat", "v"), ("QoS", "QoS", "v"), ("ResponseTopic", "ResponseTopic", "v"), ("Retain", "Retain", "v"),
     ("SubscriptionIDs", "SubscriptionIDs", "v"), ("TopicAlias", "TopicAlias", "v"), ("TopicName", "TopicName", "v")],
 4: [("PacketID", "PacketID", "v"), ("ReasonString", "ReasonString", "v"), ("ReasonCode", "ReasonCode", "v")],
 5: [("PacketID", "PacketID", "v"), ("Reason", "ReasonString", "v"), ("ReasonCode", "ReasonCode", "v")],
 6: [("PacketID", "PacketID", "v"), ("ReasonString", "ReasonString", "v"), ("ReasonCode", "ReasonCode", "v")],
 7: [("PacketID", "PacketID", "v"), ("Reason", "ReasonString", "v"), ("ReasonCode", "ReasonCode", "v")],
 8: [("PacketID", "PacketID", "v")],
 9: [("PacketID", "PacketID", "v"), ("ReasonString", "ReasonString", "v"), ("ReasonCodes", "ReasonCodes", "v")],
 10: [("PacketID", "PacketID", "v")],
 11: [("PacketID", "PacketID", "v"), ("ReasonString", "ReasonString", "v"), ("ReasonCodes", "ReasonCodes", "v")],
 14: [("ReasonCode", "ReasonCode", "v"), ("ReasonString", "ReasonString", "q"), ("ServerReference", "ServerReference", "q"),
      ("SessionExpiryInterval", "SessionExpiryInterval", "v")],
 15: [("AuthData", "AuthData", "qb"), ("AuthMethod", "AuthMethod", "q"), ("ReasonCode", "ReasonCode", "v"), ("ReasonString", "ReasonString", "q")],
}


def tup(s):
    return "<<" + ", ".join(str(b) for b in s.encode()) + ">>"


out = ["----------------------------- MODULE MQLibText -----------------------------",
       "(* GENERATED by tools/mktext.py - literal texts of the library's renderings as byte tuples *)",
       "TypeText(t) == CASE " + "\n             [] ".join("t = %d -> %s" % (i, tup(n)) for i, n in enumerate(types)),
       "KnownReasons == {" + ", ".join(str(k) for k in sorted(reasons)) + "}",
       "ReasonText(c) == CASE " + "\n               [] ".join("c = %d -> %s" % (k, tup(v)) for k, v in sorted(reasons.items()))]
out.append("DumpSpec(t) == CASE " + "\n              [] ".join(
    "t = %d -> <<%s>>" % (t, ", ".join('[label |-> %s, key |-> "%s", f |-> "%s"]' % (tup(l), k, f) for l, k, f in rows))
    for t, rows in sorted(DUMP.items())) + "\n              [] OTHER -> <<>>")
lits.update({"Stars": "*********", "Will": "Will", "Filters": "Filters", "UserProperties": "UserProperties", "SubscriptionID": "SubscriptionID",
             "True": "true", "False": "false"})
for k, v in lits.items():
    out.append("Txt%s == %s" % (k, tup(v)))
out.append("=============================================================================")
open(os.path.join(V, "spec", "MQLibText.tla"), "w").write("\n".join(out) + "\n")
