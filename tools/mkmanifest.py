#!/usr/bin/env python3
"""Writes /verif/MANIFEST.json from the table below (kept in one place so that the manifest stays consistent)."""
import json, os, subprocess
V = os.path.dirname(os.path.dirname(os.path.abspath(__file__)))

MC = "model_checking"
TECH = ("TLA+ specification (spec/*.tla) checked by TLC; TLC-generated programs replayed into the real code by the Go driver; "
        "recorded traces validated by TLC against spec/Trace.tla")
NOTE = ("trusted base: TLC 1.8.0 and the TLA+ specification written from the OASIS MQTT v5.0 text (its own theorems are "
        "model-checked in every run), the Go driver (reflection interpreter, no oracle), the JSON trace encoding; "
        "bounded: only the enumerated / sampled cases of DESIGN.md section 6 are decided")

CHECKS = {
 "C01": (MC, "6 C01", "Every packet of the bounded lattice (15 types x property subsets/orders x short forms x boundary lengths x "
         "remaining-length thresholds) is built through the API, written, read back and compared accessor by accessor with the "
         "PacketAPI model by TLC; the right level because the property is a universally quantified equation between an API "
         "history and an observation, which the model decides case by case. Also at the end of every MC_API setter history (all "
         "ordered pairs of calls; every call from a packet carrying every field that was written or printed before) and with a "
         "dictionary of texts in every text field."),
 "C02": (MC, "6 C02", "The bytes WriteTo hands to the writer are read by the strict reference decoder of the specification "
         "(MQTTWire!StrictDecode, itself model-checked against the reference encoder) and must carry exactly the model state."),
 "C03": (MC, "6 C03", "Frames produced by the specification's reference encoder (not by the library) for every abstract wire packet "
         "of the bounded domain are fed to ReadPacket; TLC compares the accessors with ObsOfWire(StrictDecode(frame))."),
 "C04": (MC, "6 C04", "Exhaustive over the bounded mutant language (every prefix, interior cut, undefined identifier, bad boolean, "
         "five-byte length of the sampled base packets) plus direct UnmarshalBinary of every type; a Panic event has no action in "
         "the trace specification."),
 "C05": (MC, "6 C05", "The same inputs under a deterministic step budget (hook H2: 4*len+64 guarded reads), a watchdog and the "
         "list-length bound, judged by the trace specification; sensors supply the observation, TLA+ the bound. A returned packet "
         "is re-examined at every later read of its stream (it may never hold more list elements than its frame had bytes)."),
 "C06": (MC, "6 C06", "Every Read request of every call on sequences of frames is an RP_Read step of StreamIO whose guard "
         "(KnownNeed) forbids over-reading; frames in order then io.EOF; the same sequences through *bufio.Reader, bytes.Reader, "
         "bytes.Buffer, strings.Reader, io.LimitedReader (judged per call: exactly one frame taken out of the reader)."),
 "C07": (MC, "6 C07", "All compositions of short frames into chunks (exhaustive to 7/10 bytes), zero-length reads, EOF with the "
         "last bytes: each logged Read is a StreamIO step and the outcome must equal the contiguous one."),
 "C08": ("fault_enumeration", "6 C08", "Every cut offset x {EOF, E} x {with last bytes, next call} x fragmentations of the prefix; "
         "StreamIO!MayReturn decides which results are allowed."),
 "C09": (MC, "6 C09", "TLC proves Verdict = reject (classes a-d) for every generated mutant in the model and the trace "
         "specification requires the real decoder to return an error for it."),
 "C10": (MC, "6 C10", "Writer side of StreamIO: all packets with an accepting writer, small packets with a writer failing after "
         "every k < L bytes; WriteOutcomeOK decides, and MC_Write model-checks the writer state machine (WriteIO.tla) whose "
         "completed behaviours satisfy that predicate. Histories with writes and String() between the calls; writers with the "
         "WriteByte / WriteString / ReadFrom method set."),
 "C11": (MC, "6 C11", "Repeated encodings of an unchanged model state (8 in a row, before/after String/Dump/WellFormed) must be "
         "byte-identical and the accessor record unchanged; cross-process repetition through worker processes; concurrent "
         "encodings (the configurations of C13 with a writing goroutine) must equal the sequential one."),
 "C12": (MC, "6 C12", "TLC explores PacketAPI exhaustively per type over all setter histories of depth 2 (thorough 3) with "
         "boundary arguments, from the constructor's packet, from a packet carrying every field (after a write / print) and from "
         "the decoded packet; every history is executed and compared after every call, the final frame with what was set."),
 "C13": ("exploration", "6 C13", "Configurations enumerated by TLC, executed under the Go race detector; race freedom is claimed "
         "only for the executions that ran (TLA+ cannot observe unsynchronised memory accesses)."),
 "C14": (MC, "6 C14", "Histories over a pool of packets and buffers with scribbling; after every event the untouched handles "
         "must still report their model state."),
 "C15": (MC, "6 C15", "Boundary values and short byte sequences through hook H1, decided by Bytes!VBI/VBIRead in TLC; thorough "
         "adds the exhaustive Go sweep whose oracle is validated by TLC on every point of the run."),
 "C16": (MC, "6 C16", "All 256 first bytes x bodies that parse for the type; dynamic type, PUBLISH flags and rewritten first byte."),
 "C17": (MC, "6 C17", "The full grids of the statement (topic x alias x QoS x id; filters x subscription identifier boundary x "
         "all option bytes) against PublishWF/SubscribeWF/FilterWF, built and decoded."),
 "C18": (MC, "6 C18", "Two-run non-interference: pairs of CONNECT packets differing only in credential bytes must give identical "
         "String and Dump; the relation is evaluated by TLC over recorded outputs."),
 "C19": (MC, "6 C19", "String and Dump after every program of the mutant, ownership and well-formedness families, on zero values "
         "and for all 256 values of each rendered byte; a Panic or timeout has no action."),
}


def main():
    ids = [json.loads(l)["id"] for l in open(os.path.join(V, "properties.jsonl"))]
    hooks = subprocess.run(["git", "-C", "/repo", "log", "--format=%H %s"], capture_output=True, text=True).stdout.splitlines()
    hook_commits = [l.split()[0] for l in hooks if "verif hook" in l]
    m = {
        "version": 1,
        "setup_cmd": "bin/setup",
        "hooks": {"guard": "verif", "enable": "go build -tags verif (the checks build the driver in harness/ against /repo with this tag)",
                  "baseline_off_cmd": "cd /repo && go build ./... && go test -vet=off -count=1 ./...",
                  "source_commits": hook_commits, "add_only": True},
        "engines": [
            {"name": "tlc-spec", "path": "spec/", "serves_properties": ids,
             "kind_free_text": "TLA+ specification (Bytes, MQTTWire, PacketAPI, StreamIO, WriteRules, WriteIO, DecodeSteps, Endpoint, as-built "
                               "layer MQLib), generators and models (Gen, Gen2, MC_API, MC_Stream, MC_Write; StreamIOCount and VBILemma with "
                               "Apalache) and the trace specification (Trace) checked with TLC 1.8.0"},
            {"name": "mqdrive", "path": "harness/mqdrive", "serves_properties": ids,
             "kind_free_text": "Go interpreter executing TLC-generated programs on the real library and recording ND-JSON traces"}],
        "checks": [],
        "notes": "bin/check <ID> [--tier quick|thorough] [--replay file]; exit 0 held / 1 VIOLATION / 2 infrastructure. "
                 "VERIF_SEED selects the sampled residue classes; VERIF_REPO overrides /repo (used by bin/selftest).",
        "not_applicable": [],
    }
    for i in ids:
        if i not in CHECKS:
            m["not_applicable"].append({"property_id": i, "reason": "check not built yet"})
            continue
        lvl, ref, text = CHECKS[i]
        m["checks"].append({
            "property_id": i,
            "quick_cmd": "bin/check %s --tier quick" % i,
            "thorough_cmd": "bin/check %s --tier thorough" % i,
            "evidence_file": "evidence/%s.json" % i,
            "replay_cmd_template": "bin/check %s --replay {path}" % i,
            "engine": "tlc-spec",
            "level_claimed": {"category": lvl, "text": text, "design_ref": "DESIGN.md section " + ref},
            "level_note": NOTE,
            "technique": TECH,
        })
    json.dump(m, open(os.path.join(V, "MANIFEST.json"), "w"), indent=1)


main()
