//go:build verif

package main

import "github.com/gregoryv/mq"

// hook H2 of /repo (verif_step_on.go): every guarded read of the decoder counts as one step
func init() {
	mq.VerifStep = func(v interface{}, i, n int, errSet bool) { onStep() }
}
