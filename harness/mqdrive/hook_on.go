//go:build verif

package main

import (
	"io"

	"github.com/gregoryv/mq"
)

// hook H2 of /repo (verif_step_on.go): every guarded read of the decoder counts as one step
func init() {
	mq.VerifStep = func(v interface{}, i, n int, errSet bool) { onStepAt(i, errSet) }
}

func verifVBIEncode(v uint) []byte { return mq.VerifVBIEncode(v) }
func verifVBIDecode(b []byte) (uint, int, error) { return mq.VerifVBIDecode(b) }
func verifVBIRead(r io.Reader) (uint, int64, error) { return mq.VerifVBIRead(r) }
