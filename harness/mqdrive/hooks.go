package main

// Binding to the guarded hooks in /repo (build tag verif). See hook_on.go.

type budgetAbort struct{ steps, limit int64 }

var stepLimit int64 // 0 = unlimited
var stepsSeen int64

func stepCount() int64 { return stepsSeen }

// budgetFor is MaxSteps of DecodeSteps.tla: 4*len + 64 guarded reads.
func budgetFor(n int) int64 {
	stepsSeen = 0
	return int64(4*n + 64)
}

func onStep() {
	stepsSeen++
	if stepLimit > 0 && stepsSeen > stepLimit {
		panic(budgetAbort{stepsSeen, stepLimit})
	}
}
