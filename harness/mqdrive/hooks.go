package main

// Binding to the guarded hooks in /repo (build tag verif). See hook_on.go.

import "sync/atomic"

type budgetAbort struct{ steps, limit int64 }

var stepLimit int64 // 0 = unlimited
var stepsSeen int64

func stepCount() int64 { return atomic.LoadInt64(&stepsSeen) }

// budgetFor is MaxSteps of DecodeSteps.tla: 4*len + 64 guarded reads.
func budgetFor(n int) int64 {
	atomic.StoreInt64(&stepsSeen, 0)
	return int64(4*n + 64)
}

// the trail: where each guarded read of the last (short) decode started: [offset, error already set]; recorded only by the
// single-goroutine programs (trailOn is set around one ReadPacket / UnmarshalBinary call)
var (
	trailOn bool
	trail   [][2]int
)

func startTrail(on bool) {
	trailOn = on
	trail = trail[:0]
}

func takeTrail() [][2]int {
	t := append([][2]int{}, trail...)
	trailOn = false
	return t
}

func onStepAt(i int, errSet bool) {
	if trailOn && len(trail) < 400 {
		e := 0
		if errSet {
			e = 1
		}
		trail = append(trail, [2]int{i, e})
	}
	onStep()
}

func onStep() {
	n := atomic.AddInt64(&stepsSeen, 1)
	if lim := atomic.LoadInt64(&stepLimit); lim > 0 && n > lim {
		panic(budgetAbort{n, lim})
	}
}
