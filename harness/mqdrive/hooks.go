package main

// Binding to the guarded hooks in /repo (build tag verif). See hook_on.go.

import "sync/atomic"

type budgetAbort struct{ steps, limit int64 }

var stepLimit int64 // 0 = unlimited
var stepsSeen int64

func stepCount() int64 { return atomic.LoadInt64(&stepsSeen) }

// budgetFor is MaxSteps of DecodeSteps.tla: 4*len + 64 guarded reads.
func budgetFor(n int) int64 {
	atomic.StoreInt64(&stepsSeen, 0)
	return int64(4*n + 64)
}

func onStep() {
	n := atomic.AddInt64(&stepsSeen, 1)
	if lim := atomic.LoadInt64(&stepLimit); lim > 0 && n > lim {
		panic(budgetAbort{n, lim})
	}
}
