package main

// Exhaustive sweep for C15 (thorough tier): all 2^28 values through the encoder and both
// decoders, all byte sequences of length <= 4, and all four-continuation prefixes with a
// set of fifth bytes.  The sweep compares the library with refEnc/refRead (transcriptions of
// Bytes!VBI4 / VBIRead which TLC validates on every VBI event of the same run).  It decides
// nothing: every disagreement is printed as a program for the driver, whose trace TLC judges.

import (
	"bytes"
	"encoding/json"
	"fmt"
	"os"
	"sync"
	"sync/atomic"
)

type sweepOut struct {
	Evaluations   int64            `json:"evaluations"`
	Disagreements int64            `json:"disagreements"`
	Programs      []map[string]any `json:"programs"`
}

func sweep(limitBits int) {
	var evals, bad int64
	var mu sync.Mutex
	out := sweepOut{Programs: []map[string]any{}}
	report := func(kind string, data []int) {
		atomic.AddInt64(&bad, 1)
		mu.Lock()
		defer mu.Unlock()
		if len(out.Programs) < 40 {
			out.Programs = append(out.Programs, map[string]any{"fam": "vbi", "meta": map[string]any{"kind": "sweep-" + kind},
				"steps": []map[string]any{{"op": "VBI", "key": kind, "bytes": data}}})
		}
	}
	eq := func(a []byte, b []int) bool {
		if len(a) != len(b) {
			return false
		}
		for i := range a {
			if int(a[i]) != b[i] {
				return false
			}
		}
		return true
	}
	checkSeq := func(b []byte) {
		mv, mw, merr := verifVBIDecode(b)
		sv, sn, serr := verifVBIRead(bytes.NewReader(b))
		k, v, w, minimal := refRead(b)
		ok := true
		if (merr == nil) != (serr == nil) || (merr == nil && mv != sv) {
			ok = false
		}
		if k == 0 && (merr == nil || serr == nil) {
			ok = false
		}
		if k == 1 && minimal && !(merr == nil && serr == nil && mv == v && sv == v && mw == w && int(sn) == w) {
			ok = false
		}
		if !ok {
			report("dec", ints(b))
		}
	}
	nWorkers := 16
	var wg sync.WaitGroup
	// (1) all values
	maxV := uint(1) << uint(limitBits)
	for wk := 0; wk < nWorkers; wk++ {
		wg.Add(1)
		go func(wk int) {
			defer wg.Done()
			var n int64
			for v := uint(wk); v < maxV; v += uint(nWorkers) {
				b := verifVBIEncode(v)
				if !eq(b, refEnc(v)) {
					report("enc", []int{int(v)})
				}
				checkSeq(b)
				n += 2
			}
			atomic.AddInt64(&evals, n)
		}(wk)
	}
	wg.Wait()
	// (2) all byte sequences of length 1..4 (length 4 restricted to limitBits worth when not full)
	full := limitBits >= 28
	for wk := 0; wk < nWorkers; wk++ {
		wg.Add(1)
		go func(wk int) {
			defer wg.Done()
			var n int64
			buf := make([]byte, 4)
			for b0 := wk; b0 < 256; b0 += nWorkers {
				buf[0] = byte(b0)
				checkSeq(buf[:1])
				n++
				for b1 := 0; b1 < 256; b1++ {
					buf[1] = byte(b1)
					checkSeq(buf[:2])
					n++
					for b2 := 0; b2 < 256; b2++ {
						buf[2] = byte(b2)
						checkSeq(buf[:3])
						n++
						if !full && b2%16 != 0 {
							continue
						}
						for b3 := 0; b3 < 256; b3++ {
							buf[3] = byte(b3)
							checkSeq(buf[:4])
							n++
						}
					}
				}
			}
			atomic.AddInt64(&evals, n)
		}(wk)
	}
	wg.Wait()
	// (3) four continuation bytes followed by a fifth byte
	fifth := []byte{0, 1, 0x7f, 0x80, 0xff}
	for wk := 0; wk < nWorkers; wk++ {
		wg.Add(1)
		go func(wk int) {
			defer wg.Done()
			var n int64
			buf := make([]byte, 5)
			step := 1
			if !full {
				step = 17
			}
			for b0 := 128 + wk; b0 < 256; b0 += nWorkers {
				for b1 := 128; b1 < 256; b1 += step {
					for b2 := 128; b2 < 256; b2 += step {
						for b3 := 128; b3 < 256; b3++ {
							buf[0], buf[1], buf[2], buf[3] = byte(b0), byte(b1), byte(b2), byte(b3)
							for _, f := range fifth {
								buf[4] = f
								checkSeq(buf)
								n++
							}
						}
					}
				}
			}
			atomic.AddInt64(&evals, n)
		}(wk)
	}
	wg.Wait()
	out.Evaluations = evals
	out.Disagreements = bad
	json.NewEncoder(os.Stdout).Encode(out)
	_ = fmt.Sprint
}
