package main

// The interpreter: executes one program (a list of steps chosen by the
// TLA+ specification or by a seeded generator) against the real library
// and records one event per step.  It decides nothing.

import (
	"bytes"
	"encoding"
	"encoding/json"
	"errors"
	"fmt"
	"hash/fnv"
	"io"
	"reflect"
	"regexp"
	"runtime"
	"os"
	"sort"
	"strconv"
	"strings"
	"sync"
	"sync/atomic"

	"github.com/gregoryv/mq"
)

type step struct {
	Op      string            `json:"op"`
	H       int               `json:"h"`
	Type    string            `json:"type"`
	M       string            `json:"m"`
	Args    []json.RawMessage `json:"args"`
	Bytes   []int             `json:"bytes"`
	From    int               `json:"from"`   // handle whose last written bytes are the input
	Stream  int               `json:"stream"` // stream id
	Buf     int               `json:"buf"`
	Reader  *readerPlan       `json:"reader"`
	Writer  *writerPlan       `json:"writer"`
	N       int               `json:"n"`
	Key     string            `json:"key"`
	Procs   int               `json:"procs"`
	Ops     []string          `json:"ops"`
	Hs      []int             `json:"hs"`
	Frames  [][]int           `json:"frames"`
	Refs    bool              `json:"refs"` // the arguments of a Call are handles of TopicFilter values
	NoObs   bool              `json:"noobs"`
	Observe string            `json:"observe"` // "all": attach obs of every live handle
}

type program struct {
	ID    string          `json:"id"`
	Fam   string          `json:"fam"`
	Meta  json.RawMessage `json:"meta"`
	Steps []step          `json:"steps"`
}

type machine struct {
	pkts    map[int]any
	written map[int][]byte
	streams map[int]*scriptedReader
	spos    map[int][]byte
	bufs    map[int][]byte
	slices  map[int][]mq.TopicFilter
	bufios  map[int]*wrappedReader
	out     *json.Encoder
	flush   func() error
	mu      sync.Mutex
	curOp   atomic.Value // description of the step being executed
	observe string
	steps   int64 // hook H2 counter
}

var constructors = map[string]func() any{
	"Connect":     func() any { return mq.NewConnect() },
	"ConnAck":     func() any { return mq.NewConnAck() },
	"Publish":     func() any { return mq.NewPublish() },
	"PubAck":      func() any { return mq.NewPubAck() },
	"PubRec":      func() any { return mq.NewPubRec() },
	"PubRel":      func() any { return mq.NewPubRel() },
	"PubComp":     func() any { return mq.NewPubComp() },
	"Subscribe":   func() any { return mq.NewSubscribe() },
	"SubAck":      func() any { return mq.NewSubAck() },
	"Unsubscribe": func() any { return mq.NewUnsubscribe() },
	"UnsubAck":    func() any { return mq.NewUnsubAck() },
	"PingReq":     func() any { return mq.NewPingReq() },
	"PingResp":    func() any { return mq.NewPingResp() },
	"Disconnect":  func() any { return mq.NewDisconnect() },
	"Auth":        func() any { return mq.NewAuth() },
	"Undefined":   func() any { return &mq.Undefined{} },
}

var zeros = map[string]func() any{
	"Connect":     func() any { return &mq.Connect{} },
	"ConnAck":     func() any { return &mq.ConnAck{} },
	"Publish":     func() any { return &mq.Publish{} },
	"PubAck":      func() any { return &mq.PubAck{} },
	"PubRec":      func() any { return &mq.PubRec{} },
	"PubRel":      func() any { return &mq.PubRel{} },
	"PubComp":     func() any { return &mq.PubComp{} },
	"Subscribe":   func() any { return &mq.Subscribe{} },
	"SubAck":      func() any { return &mq.SubAck{} },
	"Unsubscribe": func() any { return &mq.Unsubscribe{} },
	"UnsubAck":    func() any { return &mq.UnsubAck{} },
	"PingReq":     func() any { return &mq.PingReq{} },
	"PingResp":    func() any { return &mq.PingResp{} },
	"Disconnect":  func() any { return &mq.Disconnect{} },
	"Auth":        func() any { return &mq.Auth{} },
	"Undefined":   func() any { return &mq.Undefined{} },
	"TopicFilter": func() any { return &mq.TopicFilter{} },
}

func toBytes(a []int) []byte {
	b := make([]byte, len(a))
	for i, v := range a {
		b[i] = byte(v)
	}
	return b
}

func typeName(p any) string {
	if p == nil {
		return ""
	}
	t := reflect.TypeOf(p)
	if t.Kind() == reflect.Ptr {
		t = t.Elem()
	}
	return t.Name()
}

func isNilPacket(p any) bool {
	if p == nil {
		return true
	}
	v := reflect.ValueOf(p)
	return v.Kind() == reflect.Ptr && v.IsNil()
}

// panicSite names the innermost library function on the stack.
func panicSite() string {
	pcs := make([]uintptr, 64)
	n := runtime.Callers(3, pcs)
	frames := runtime.CallersFrames(pcs[:n])
	for {
		f, more := frames.Next()
		if strings.Contains(f.Function, "gregoryv/mq.") {
			i := strings.LastIndex(f.Function, "gregoryv/mq.")
			return f.Function[i+len("gregoryv/mq."):]
		}
		if !more {
			break
		}
	}
	return "?"
}

func (m *machine) emit(e obj) {
	m.mu.Lock()
	defer m.mu.Unlock()
	if err := m.out.Encode(e); err != nil {
		fatal("emit: %v", err)
	}
	for _, sp := range takeSidePanics() { // panics raised while observing, behind the event of the step
		if err := m.out.Encode(sp); err != nil {
			fatal("emit: %v", err)
		}
	}
}

// abort is called by the watchdog goroutine: it records what the hung step was and ends the process.
func (m *machine) abort(why string, code int) {
	m.mu.Lock()
	cur, _ := m.curOp.Load().(step)
	m.out.Encode(obj{"ev": "Abort", "why": why, "op": cur.Op, "h": cur.H, "m": cur.M})
	if m.flush != nil {
		m.flush()
	}
	fmt.Fprintf(os.Stderr, "ABORT %s in %s\n", why, cur.Op)
	os.Exit(code)
}

func (m *machine) obsOf(h int) obj {
	p := m.pkts[h]
	if isNilPacket(p) {
		return obj{"type": "nil"}
	}
	return project(p)
}

func (m *machine) attachObs(e obj, h int, noobs bool) {
	if noobs {
		return
	}
	if m.observe == "all" {
		all := []any{}
		hs := []int{}
		for k := range m.pkts {
			hs = append(hs, k)
		}
		sort.Ints(hs)
		for _, k := range hs {
			all = append(all, []any{k, m.obsOf(k)})
		}
		e["all"] = all
	}
	if h != 0 {
		e["obs"] = m.obsOf(h)
	}
}

// convArg converts one JSON argument to the Go parameter type.
func (m *machine) convArg(raw json.RawMessage, t reflect.Type) (reflect.Value, error) {
	switch {
	case t == tPublishPtr:
		var ref struct {
			H int `json:"h"`
		}
		if err := json.Unmarshal(raw, &ref); err != nil {
			return reflect.Value{}, err
		}
		p, ok := m.pkts[ref.H].(*mq.Publish)
		if !ok {
			return reflect.Value{}, fmt.Errorf("handle %d is not a *Publish", ref.H)
		}
		return reflect.ValueOf(p), nil
	case t == tTopicFilter:
		var ref struct {
			H int `json:"h"`
		}
		if json.Unmarshal(raw, &ref) == nil && ref.H != 0 { // the caller passes a TopicFilter value it keeps using
			tf, ok := m.pkts[ref.H].(*mq.TopicFilter)
			if !ok {
				return reflect.Value{}, fmt.Errorf("handle %d is not a *TopicFilter", ref.H)
			}
			return reflect.ValueOf(*tf), nil
		}
		var pair []json.RawMessage
		if err := json.Unmarshal(raw, &pair); err != nil || len(pair) != 2 {
			return reflect.Value{}, fmt.Errorf("topic filter wants [filter, options]")
		}
		var fb []int
		var opt int
		if err := json.Unmarshal(pair[0], &fb); err != nil {
			return reflect.Value{}, err
		}
		if err := json.Unmarshal(pair[1], &opt); err != nil {
			return reflect.Value{}, err
		}
		return reflect.ValueOf(mq.NewTopicFilter(string(toBytes(fb)), mq.Opt(opt))), nil
	}
	switch t.Kind() {
	case reflect.Bool:
		var b bool
		if err := json.Unmarshal(raw, &b); err != nil {
			return reflect.Value{}, err
		}
		return reflect.ValueOf(b).Convert(t), nil
	case reflect.Uint8, reflect.Uint16, reflect.Uint, reflect.Uint64:
		var n uint64
		if err := json.Unmarshal(raw, &n); err != nil {
			return reflect.Value{}, err
		}
		return reflect.ValueOf(n).Convert(t), nil
	case reflect.Int, reflect.Int64, reflect.Int32:
		var n int64
		var big struct {
			Pow  uint  `json:"pow"`
			Plus int64 `json:"plus"`
		}
		if json.Unmarshal(raw, &big) == nil && big.Pow > 0 { // a value beyond 32 bits, passed symbolically: 2^pow + plus
			return reflect.ValueOf(int64(1)<<big.Pow + big.Plus).Convert(t), nil
		}
		if err := json.Unmarshal(raw, &n); err != nil {
			return reflect.Value{}, err
		}
		return reflect.ValueOf(n).Convert(t), nil
	case reflect.Uint32:
		var pair []uint32
		if err := json.Unmarshal(raw, &pair); err == nil && len(pair) == 2 {
			return reflect.ValueOf(pair[0]<<16 | pair[1]).Convert(t), nil
		}
		var n uint32
		if err := json.Unmarshal(raw, &n); err != nil {
			return reflect.Value{}, err
		}
		return reflect.ValueOf(n).Convert(t), nil
	case reflect.String:
		var a []int
		if err := json.Unmarshal(raw, &a); err != nil {
			return reflect.Value{}, err
		}
		return reflect.ValueOf(string(toBytes(a))).Convert(t), nil
	case reflect.Slice:
		if t.Elem().Kind() == reflect.Uint8 {
			var a []int
			if err := json.Unmarshal(raw, &a); err != nil {
				return reflect.Value{}, err
			}
			return reflect.ValueOf(toBytes(a)).Convert(t), nil
		}
	}
	return reflect.Value{}, fmt.Errorf("unsupported parameter type %v", t)
}

func (m *machine) call(p any, name string, args []json.RawMessage) error {
	v := reflect.ValueOf(p)
	meth := v.MethodByName(name)
	if !meth.IsValid() {
		return fmt.Errorf("no method %s on %T", name, p)
	}
	mt := meth.Type()
	var in []reflect.Value
	if mt.IsVariadic() {
		fixed := mt.NumIn() - 1
		if len(args) < fixed {
			return fmt.Errorf("%s: too few arguments", name)
		}
		for i := 0; i < fixed; i++ {
			a, err := m.convArg(args[i], mt.In(i))
			if err != nil {
				return err
			}
			in = append(in, a)
		}
		et := mt.In(fixed).Elem()
		for _, raw := range args[fixed:] {
			a, err := m.convArg(raw, et)
			if err != nil {
				return err
			}
			in = append(in, a)
		}
	} else {
		if len(args) != mt.NumIn() {
			return fmt.Errorf("%s: wants %d arguments, got %d", name, mt.NumIn(), len(args))
		}
		for i, raw := range args {
			a, err := m.convArg(raw, mt.In(i))
			if err != nil {
				return err
			}
			in = append(in, a)
		}
	}
	meth.Call(in)
	return nil
}

var reBytes = regexp.MustCompile(`(\d+) bytes`)

// strN: the N of "N bytes" in a rendering, -1 if there is none.  A text field of the packet may itself read "12 bytes":
// of several candidates the one that equals want (the size actually written, or the size of the packet's encoding) is the
// printed size; if none does, the last one is reported (and differs from the size).
func strN(s string, want int) int {
	mm := reBytes.FindAllStringSubmatch(s, -1)
	if len(mm) == 0 {
		return -1
	}
	last := -1
	for _, m := range mm {
		n, _ := strconv.Atoi(m[1])
		if n == want {
			return n
		}
		last = n
	}
	return last
}

// digest keeps a long rendering comparable without logging all of it: the first 1500 bytes, the 64-bit FNV-1a hash of the
// whole, the last 500 bytes (equal renderings stay equal, different ones stay different; short ones are logged as they are).
func digest(b []byte) []byte {
	if len(b) <= 3000 {
		return b
	}
	h := fnv.New64a()
	h.Write(b)
	out := append([]byte{}, b[:1500]...)
	out = h.Sum(out)
	return append(out, b[len(b)-500:]...)
}

// malformedSuffix: the rendering carries "malformed!" behind the printed size (a topic or filter that itself reads
// "malformed!" stands in front of the size and is not the suffix).
func malformedSuffix(s string) bool {
	if loc := reBytes.FindAllStringIndex(s, -1); len(loc) > 0 {
		return strings.Contains(s[loc[len(loc)-1][1]:], "malformed!")
	}
	return strings.Contains(s, "malformed!")
}

func errTag(err error) string {
	switch {
	case err == nil:
		return "nil"
	case errors.Is(err, ErrInjected):
		return "E"
	case errors.Is(err, io.EOF):
		return "eof"
	}
	return "other"
}

// reencode writes p to a buffer; used to report the bytes a decoded packet produces.
func reencode(p any) (b []int, failed bool) {
	w, ok := p.(io.WriterTo)
	if !ok {
		return []int{}, true
	}
	var buf bytes.Buffer
	failed = true
	guarded("WriteTo", "WriteTo", func() {
		if _, err := w.WriteTo(&buf); err == nil {
			failed = false
		}
	})
	if failed {
		return []int{}, true
	}
	return ints(buf.Bytes()), false
}

// printedSize: the N of "N bytes" in String(), -1 if there is none (or String panics: a Panic event of its own).
func printedSize(p any, want int) int {
	n := -1
	guarded("Diag", "String", func() { n = strN(p.(fmt.Stringer).String(), want) })
	return n
}

// renderBefore: String() before an operation, kept as text until the size to look for is known.
func renderBefore(p any) (s string, ok bool) {
	ok = guarded("Diag", "String", func() { s = p.(fmt.Stringer).String() })
	return
}

// runStep executes one step; a panic inside the library is turned into a Panic event.
func (m *machine) runStep(idx int, s step) (stop bool) {
	m.curOp.Store(s)
	defer func() {
		if r := recover(); r != nil {
			if ab, ok := r.(budgetAbort); ok {
				m.emit(obj{"ev": "Budget", "op": s.Op, "h": s.H, "steps": ab.steps, "limit": ab.limit, "i": idx})
			} else {
				m.emit(obj{"ev": "Panic", "op": s.Op, "h": s.H, "m": s.M, "site": panicSite(), "msg": fmt.Sprint(r), "i": idx})
			}
			stop = true
		}
	}()
	switch s.Op {
	case "New", "Zero":
		tbl := constructors
		if s.Op == "Zero" {
			tbl = zeros
		}
		mk, ok := tbl[s.Type]
		if !ok {
			fatal("unknown type %q", s.Type)
		}
		m.pkts[s.H] = mk()
		e := obj{"ev": "New", "h": s.H, "type": s.Type, "how": strings.ToLower(s.Op)}
		m.attachObs(e, s.H, s.NoObs)
		m.emit(e)

	case "Pub":
		var qos uint8
		var topic, payload []int
		if len(s.Args) != 3 || json.Unmarshal(s.Args[0], &qos) != nil || json.Unmarshal(s.Args[1], &topic) != nil || json.Unmarshal(s.Args[2], &payload) != nil {
			fatal("Pub wants [qos, topic, payload]")
		}
		m.pkts[s.H] = mq.Pub(qos, string(toBytes(topic)), string(toBytes(payload)))
		e := obj{"ev": "Pub", "h": s.H, "args": s.Args}
		m.attachObs(e, s.H, s.NoObs)
		m.emit(e)

	case "Call":
		p := m.pkts[s.H]
		if isNilPacket(p) {
			m.emit(obj{"ev": "Skip", "op": s.Op, "h": s.H, "why": "nil handle"})
			return true
		}
		if err := m.call(p, s.M, s.Args); err != nil {
			fatal("program %s: %v", "call", err)
		}
		e := obj{"ev": "Call", "h": s.H, "m": s.M, "args": s.Args}
		if s.Refs {
			e["refs"] = true
		}
		if len(s.Args) == 1 && bytes.Contains(s.Args[0], []byte(`"pow"`)) { // what the model is told: "beyond 2^31 - 1"
			e["nargs"] = []int{2147483647}
		}
		m.attachObs(e, s.H, s.NoObs)
		m.emit(e)

	case "WriteTo":
		p := m.pkts[s.H]
		if isNilPacket(p) {
			m.emit(obj{"ev": "Skip", "op": s.Op, "h": s.H, "why": "nil handle"})
			return true
		}
		w := &scriptedWriter{plan: writerPlan{Kind: "all"}}
		if s.Writer != nil {
			w.plan = *s.Writer
		}
		var dst io.Writer = w
		if w.plan.Rich { // a writer that also offers WriteByte, WriteString and ReadFrom (all logged as Write calls)
			dst = richWriter{w}
		}
		str0, ok0 := renderBefore(p) // what String() prints before the write
		n, err := p.(io.WriterTo).WriteTo(dst)
		offered := []any{}
		for _, o := range w.offered {
			offered = append(offered, ints(o))
		}
		calls := w.calls
		if calls == nil {
			calls = []writeCall{}
		}
		m.written[s.H] = append([]byte{}, w.accepted...)
		e := obj{"ev": "WriteTo", "h": s.H, "writes": calls, "n": int(n), "err": errTag(err),
			"offered": offered, "wkind": w.plan.Kind, "wk": w.plan.K,
			"strN": printedSize(p, int(n)), "strN0": -1, "type": typeName(p)}
		if ok0 {
			e["strN0"] = strN(str0, int(n))
		}
		m.attachObs(e, s.H, s.NoObs)
		m.emit(e)

	case "WriteN":
		// repeated encodings of one packet (C11): report the distinct outputs
		p := m.pkts[s.H]
		if isNilPacket(p) {
			m.emit(obj{"ev": "Skip", "op": s.Op, "h": s.H, "why": "nil handle"})
			return true
		}
		seen := map[string]bool{}
		var outs []any
		for i := 0; i < s.N; i++ {
			var buf bytes.Buffer
			p.(io.WriterTo).WriteTo(&buf)
			k := buf.String()
			if !seen[k] {
				seen[k] = true
				outs = append(outs, ints(buf.Bytes()))
			}
		}
		e := obj{"ev": "WriteN", "h": s.H, "n": s.N, "outs": outs}
		m.attachObs(e, s.H, s.NoObs)
		m.emit(e)

	case "Stream":
		data := toBytes(s.Bytes)
		if s.From != 0 {
			data = m.written[s.From]
			if s.Key == "flip" { // the same frame with other content in its last bytes (same length, same header)
				data = append([]byte{}, data...)
				for i := len(data) - 1; i >= 2 && i >= len(data)-8; i-- {
					data[i] ^= 1
				}
			}
		}
		plan := readerPlan{}
		if s.Reader != nil {
			plan = *s.Reader
		}
		m.streams[s.Stream] = newScriptedReader(data, plan)
		delete(m.bufios, s.Stream)
		if s.Key != "" && s.Key != "flip" { // the caller hands ReadPacket a standard reader (on top of the transport, or holding the bytes itself)
			m.bufios[s.Stream] = wrapReader(s.Key, m.streams[s.Stream])
		}
		if plan.Rich {
			m.streams[s.Stream].rich = true
		}
		m.spos[s.Stream] = data
		fate := "eof"
		if plan.Fate == "err" {
			fate = "E"
		}
		m.emit(obj{"ev": "Stream", "stream": s.Stream, "from": s.From, "bytes": ints(data), "limit": len(m.streams[s.Stream].data),
			"fate": fate, "with": plan.With, "contig": len(plan.Chunks) == 0})

	case "ReadPacket":
		r := m.streams[s.Stream]
		if r == nil {
			fatal("no stream %d", s.Stream)
		}
		pos0 := r.pos
		var rd io.Reader = r
		if r.rich {
			rd = richReader{r}
		}
		br := m.bufios[s.Stream]
		if br != nil {
			rd = br.rd
			pos0 = br.consumed()
		}
		m.steps = 0
		stepLimit = budgetFor(len(r.data) - r.pos)
		startTrail(len(r.data)-r.pos <= 300 && br == nil)
		alloc0 := totalAlloc()
		p, err := mq.ReadPacket(rd)
		alloc := clampAlloc(totalAlloc() - alloc0)
		stepLimit = 0
		pos1 := r.pos
		if br != nil {
			pos1 = br.consumed() // what ReadPacket took out of the caller's reader
		}
		e := obj{"ev": "Read", "stream": s.Stream, "h": s.H, "pos0": pos0, "pos1": pos1, "calls": r.takeCalls(), "wrapped": br != nil,
			"ok": err == nil, "nilpkt": p == nil, "typednil": p != nil && isNilPacket(p), "isE": errors.Is(err, ErrInjected), "isEOF": errors.Is(err, io.EOF),
			"steps": int(stepCount()), "alloc": int(alloc)}
		if tr := takeTrail(); len(tr) > 0 {
			e["trail"] = tr
		}
		if err != nil {
			e["errtext"] = err.Error()
		}
		if !isNilPacket(p) && err != nil {
			// a packet AND an error (logged above as ok = false, nilpkt = false): the program goes on without the packet
			delete(m.pkts, s.H)
			p = nil
		}
		if !isNilPacket(p) {
			m.pkts[s.H] = p
			e["type"] = typeName(p)
			if !s.NoObs {
				re, failed := reencode(p)
				e["reenc"] = re
				e["reencFailed"] = failed
				e["lens"] = listLens(p)
			}
		} else {
			delete(m.pkts, s.H)
		}
		m.attachObs(e, s.H, s.NoObs || isNilPacket(p))
		m.emit(e)

	case "Buf":
		m.bufs[s.Buf] = toBytes(s.Bytes)
		m.emit(obj{"ev": "Buf", "buf": s.Buf, "bytes": s.Bytes})

	case "Unmarshal":
		var p any
		if s.Key == "into" { // decode into the packet the handle already holds
			p = m.pkts[s.H]
			if isNilPacket(p) {
				m.emit(obj{"ev": "Skip", "op": s.Op, "h": s.H, "why": "nil handle"})
				return true
			}
		} else {
			mk, ok := zeros[s.Type]
			if s.Key == "new" {
				mk, ok = constructors[s.Type]
			}
			if !ok {
				fatal("unknown type %q", s.Type)
			}
			p = mk()
		}
		data := m.bufs[s.Buf]
		m.steps = 0
		stepLimit = budgetFor(len(data))
		alloc0 := totalAlloc()
		err := p.(encoding.BinaryUnmarshaler).UnmarshalBinary(data)
		alloc := clampAlloc(totalAlloc() - alloc0)
		stepLimit = 0
		m.pkts[s.H] = p
		e := obj{"ev": "Unmarshal", "h": s.H, "type": typeName(p), "buf": s.Buf, "data": ints(data), "err": err != nil, "into": s.Key == "into",
			"steps": int(stepCount()), "alloc": int(alloc), "lens": listLens(p)}
		m.attachObs(e, s.H, s.NoObs)
		m.emit(e)

	case "Scribble":
		b := m.bufs[s.Buf]
		for i := range b {
			b[i] = ^b[i]
		}
		e := obj{"ev": "Scribble", "buf": s.Buf}
		m.attachObs(e, 0, s.NoObs)
		m.emit(e)

	case "ScribbleSlice":
		// overwrite the bytes of a slice returned by an accessor of handle H
		p := m.pkts[s.H]
		if isNilPacket(p) {
			m.emit(obj{"ev": "Skip", "op": s.Op, "h": s.H, "why": "nil handle"})
			return true
		}
		meth := reflect.ValueOf(p).MethodByName(s.Key)
		done := false
		if meth.IsValid() && meth.Type().NumIn() == 0 && meth.Type().NumOut() == 1 {
			res := meth.Call(nil)[0]
			if res.Kind() == reflect.Slice && res.Type().Elem().Kind() == reflect.Uint8 {
				b := res.Bytes()
				for i := range b {
					b[i] = ^b[i]
				}
				done = true
			}
		}
		e := obj{"ev": "ScribbleSlice", "h": s.H, "key": s.Key, "done": done}
		m.attachObs(e, 0, s.NoObs)
		m.emit(e)

	case "Diag":
		p := m.pkts[s.H]
		if isNilPacket(p) {
			m.emit(obj{"ev": "Skip", "op": s.Op, "h": s.H, "why": "nil handle"})
			return true
		}
		str := p.(fmt.Stringer).String()
		var dump bytes.Buffer
		if pk, ok := p.(mq.Packet); ok {
			mq.Dump(&dump, pk)
		}
		first, encLen := 0, -1
		if re, failed := reencode(p); !failed && len(re) > 0 {
			first, encLen = re[0], len(re)
		}
		e := obj{"ev": "Diag", "h": s.H, "type": typeName(p), "first": first, "string": ints(digest([]byte(str))), "dump": ints(digest(dump.Bytes())),
			"malformed": malformedSuffix(str), "strN": strN(str, encLen)}
		if len(str) > 3000 || dump.Len() > 3000 {
			e["digested"] = true
		}
		e["hasWF"] = false
		if wf, ok := p.(mq.HasWellFormed); ok {
			e["hasWF"] = guarded("WellFormed", "WellFormed", func() { e["wfErr"] = wf.WellFormed() != nil })
		}
		m.attachObs(e, s.H, s.NoObs)
		m.emit(e)

	case "Filter":
		// a TopicFilter value on its own (C17 / C19)
		var fb []int
		var opt int
		if len(s.Args) != 2 || json.Unmarshal(s.Args[0], &fb) != nil || json.Unmarshal(s.Args[1], &opt) != nil {
			fatal("Filter wants [filter, options]")
		}
		tf := mq.NewTopicFilter(string(toBytes(fb)), mq.Opt(opt))
		var str string
		var wfErr bool
		okWF := guarded("WellFormed", "WellFormed", func() { wfErr = tf.WellFormed() != nil })
		okS := guarded("Diag", "String", func() { str = tf.String() })
		if !okWF || !okS {
			m.emit(obj{"ev": "Skip", "op": s.Op, "why": "observation panicked"})
			return false
		}
		m.emit(obj{"ev": "Filter", "args": s.Args, "wfErr": wfErr, "string": ints([]byte(str)),
			"filter": ints([]byte(tf.Filter())), "options": int(tf.Options())})

	case "NewFilter":
		// a TopicFilter value the program keeps and reuses (caller-side aliasing, C12/C14)
		var fb []int
		var opt int
		if len(s.Args) != 2 || json.Unmarshal(s.Args[0], &fb) != nil || json.Unmarshal(s.Args[1], &opt) != nil {
			fatal("NewFilter wants [filter, options]")
		}
		tf := mq.NewTopicFilter(string(toBytes(fb)), mq.Opt(opt))
		m.pkts[s.H] = &tf
		ev := obj{"ev": "NewFilter", "h": s.H, "args": s.Args}
		m.attachObs(ev, s.H, s.NoObs)
		m.emit(ev)

	case "Slice":
		// a []TopicFilter the program keeps (with spare capacity) and passes with "..."
		sl := make([]mq.TopicFilter, 0, len(s.Args)+2)
		for _, raw := range s.Args {
			v, err := m.convArg(raw, tTopicFilter)
			if err != nil {
				fatal("Slice: %v", err)
			}
			sl = append(sl, v.Interface().(mq.TopicFilter))
		}
		m.slices[s.H] = sl
		m.emit(obj{"ev": "Slice", "h": s.H, "args": s.Args})

	case "SliceSet":
		// the caller overwrites element N of its own slice (and may re-slice it to length Stream)
		v, err := m.convArg(s.Args[0], tTopicFilter)
		if err != nil {
			fatal("SliceSet: %v", err)
		}
		sl := m.slices[s.H]
		if s.N >= len(sl) {
			sl = append(sl, v.Interface().(mq.TopicFilter))
		} else {
			sl[s.N] = v.Interface().(mq.TopicFilter)
		}
		m.slices[s.H] = sl
		ev := obj{"ev": "SliceSet", "h": s.H, "n": s.N, "args": s.Args}
		m.attachObs(ev, 0, s.NoObs)
		m.emit(ev)

	case "CallSpread":
		// p.M(xs...) where xs is the caller's slice (handle From, no Key) or the result of accessor Key of packet From
		p := m.pkts[s.H]
		if isNilPacket(p) {
			m.emit(obj{"ev": "Skip", "op": s.Op, "h": s.H, "why": "nil handle"})
			return true
		}
		var xs reflect.Value
		if s.Key == "" {
			xs = reflect.ValueOf(m.slices[s.From])
		} else {
			q := m.pkts[s.From]
			if isNilPacket(q) {
				m.emit(obj{"ev": "Skip", "op": s.Op, "h": s.H, "why": "nil source handle"})
				return true
			}
			xs = reflect.ValueOf(q).MethodByName(s.Key).Call(nil)[0]
		}
		reflect.ValueOf(p).MethodByName(s.M).CallSlice([]reflect.Value{xs})
		ev := obj{"ev": "CallSpread", "h": s.H, "m": s.M, "from": s.From, "key": s.Key}
		m.attachObs(ev, s.H, s.NoObs)
		m.emit(ev)

	case "CallElem":
		// p.Key()[N].M(args): a setter called on an element of the slice an accessor returned (e.g. Filters()[0].SetFilter)
		p := m.pkts[s.H]
		if isNilPacket(p) {
			m.emit(obj{"ev": "Skip", "op": s.Op, "h": s.H, "why": "nil handle"})
			return true
		}
		sl := reflect.ValueOf(p).MethodByName(s.Key).Call(nil)[0]
		if s.N >= sl.Len() {
			m.emit(obj{"ev": "Skip", "op": s.Op, "h": s.H, "why": "no such element"})
			return false
		}
		el := sl.Index(s.N).Addr().Interface()
		if err := m.call(el, s.M, s.Args); err != nil {
			fatal("CallElem: %v", err)
		}
		ev := obj{"ev": "CallElem", "h": s.H, "key": s.Key, "n": s.N, "m": s.M, "args": s.Args}
		m.attachObs(ev, s.H, s.NoObs)
		m.emit(ev)

	case "Adopt":
		// the value an accessor of packet From returns (Will() of a decoded CONNECT) becomes a handle of its own
		q := m.pkts[s.From]
		if isNilPacket(q) {
			m.emit(obj{"ev": "Skip", "op": s.Op, "h": s.H, "why": "nil source handle"})
			return true
		}
		res := reflect.ValueOf(q).MethodByName(s.Key).Call(nil)[0]
		if res.Kind() != reflect.Ptr || res.IsNil() {
			m.emit(obj{"ev": "Skip", "op": s.Op, "h": s.H, "why": "accessor returned nil"})
			return true
		}
		m.pkts[s.H] = res.Interface()
		ev := obj{"ev": "New", "h": s.H, "type": typeName(res.Interface()), "how": "adopt"}
		m.attachObs(ev, s.H, s.NoObs)
		m.emit(ev)

	case "CmpDiag":
		// a marker: the trace specification compares the Diag outputs of the two handles
		m.emit(obj{"ev": "CmpDiag", "hs": s.Hs})

	case "Conc":
		m.runConc(s)

	case "VBI":
		m.runVBI(s)

	default:
		fatal("unknown op %q", s.Op)
	}
	return false
}

// listLens reports the lengths of every list a packet holds (C05).
func listLens(p any) (out obj) {
	out = obj{}
	if isNilPacket(p) {
		return out
	}
	defer func() { recover() }() // an accessor that panics is reported by the projection
	v := reflect.ValueOf(p)
	for _, name := range []string{"Filters", "ReasonCodes", "SubscriptionIDs"} {
		if meth := v.MethodByName(name); meth.IsValid() && meth.Type().NumIn() == 0 {
			out[name] = meth.Call(nil)[0].Len()
		}
	}
	if v.Kind() == reflect.Ptr && v.Elem().Kind() == reflect.Struct {
		if f := v.Elem().FieldByName("UserProperties"); f.IsValid() {
			out["UserProperties"] = f.Len()
		}
	}
	if c, ok := p.(*mq.Connect); ok && c.Will() != nil {
		out["WillUserProperties"] = len(c.Will().UserProperties)
	}
	return out
}

func (m *machine) runProgram(pr program) {
	m.pkts = map[int]any{}
	m.written = map[int][]byte{}
	m.streams = map[int]*scriptedReader{}
	m.spos = map[int][]byte{}
	m.bufs = map[int][]byte{}
	m.slices = map[int][]mq.TopicFilter{}
	m.bufios = map[int]*wrappedReader{}
	m.observe = ""
	if len(pr.Steps) > 0 && pr.Steps[0].Observe != "" {
		m.observe = pr.Steps[0].Observe
	}
	reset := obj{"ev": "Reset", "prog": pr.ID, "fam": pr.Fam}
	if len(pr.Meta) > 0 {
		reset["meta"] = pr.Meta
	}
	m.emit(reset)
	for i, s := range pr.Steps {
		if m.runStep(i, s) {
			break
		}
	}
}

// totalAlloc: bytes allocated so far by this (single-goroutine) worker; the delta around a decode is the C05 memory sensor.
func totalAlloc() uint64 {
	var ms runtime.MemStats
	runtime.ReadMemStats(&ms)
	return ms.TotalAlloc
}

// clampAlloc keeps the figure inside TLC's 32-bit integers.
func clampAlloc(a uint64) uint64 {
	if a > 2000000000 {
		return 2000000000
	}
	return a
}
