package main

// Scripted io.Reader / io.Writer: the environment side of StreamIO.tla.
// They follow a plan chosen by the specification and log every call.

import (
	"bufio"
	"bytes"
	"errors"
	"io"
	"os"
	"strings"
	"syscall"
)

// ErrInjected is the transport failure value E of the specification.
var ErrInjected = errors.New("verif: injected transport failure")

// injErr is E in other clothes: the failure a transport reports may itself wrap io.EOF, be an interrupted system call or
// a timeout (net.Error).  errors.Is(err, ErrInjected) holds for all of them, which is what the checks ask for.
type injErr struct{ kind string }

func (e injErr) Error() string { return "verif: injected transport failure (" + e.kind + ")" }
func (e injErr) Is(target error) bool {
	switch {
	case target == ErrInjected:
		return true
	case e.kind == "eof":
		return target == io.EOF
	case e.kind == "eintr":
		return target == syscall.EINTR
	case e.kind == "timeout":
		return target == os.ErrDeadlineExceeded
	}
	return false
}
func (e injErr) Timeout() bool   { return e.kind == "timeout" }
func (e injErr) Temporary() bool { return e.kind == "timeout" || e.kind == "eintr" }

func injected(kind string) error {
	if kind == "" {
		return ErrInjected
	}
	return injErr{kind}
}

type readerPlan struct {
	Chunks []int  `json:"chunks"` // sizes of successive deliveries; 0 = a (0,nil) read; exhausted = deliver all that fits
	Fate   string `json:"fate"`   // "eof" | "err" | "" (= eof)
	With   bool   `json:"with"`   // fate returned together with the last delivered bytes
	Cut    *int   `json:"cut"`    // absent: whole stream; else only bytes[:cut] are ever delivered
	Rich   bool   `json:"rich"`   // the reader handed to ReadPacket also offers ReadByte (io.ByteReader)
	EKind  string `json:"ekind"`  // what the failure E looks like: "" plain, "eof" wraps io.EOF, "eintr", "timeout"
}

type readCall struct {
	Req int    `json:"req"`
	N   int    `json:"n"`
	E   string `json:"e"`
}

type scriptedReader struct {
	data  []byte
	pos   int
	plan  readerPlan
	ci    int
	carry int // rest of a chunk that did not fit the caller's buffer
	calls []readCall
	dead  bool
	rich  bool
	held  error // ReadByte: the fate that came together with the byte just returned
}

// richReader is the scripted reader with the extra method set of the standard readers a library may look for
// (io.ByteReader); every ReadByte is a logged Read of one byte.
type richReader struct{ *scriptedReader }

func (r richReader) ReadByte() (byte, error) {
	if r.held != nil {
		err := r.held
		r.held = nil
		return 0, err
	}
	var b [1]byte
	for {
		n, err := r.Read(b[:])
		if n == 1 {
			r.held = err
			return b[0], nil
		}
		if err != nil {
			return 0, err
		}
	}
}

// wrappedReader: what the caller hands to ReadPacket instead of the scripted reader itself.
type wrappedReader struct {
	rd       io.Reader
	consumed func() int // bytes ReadPacket has taken out of rd so far
}

func wrapReader(kind string, r *scriptedReader) *wrappedReader {
	switch kind {
	case "bufio":
		br := bufio.NewReader(r)
		return &wrappedReader{br, func() int { return r.pos - br.Buffered() }}
	case "bufio16":
		br := bufio.NewReaderSize(r, 16)
		return &wrappedReader{br, func() int { return r.pos - br.Buffered() }}
	case "bytes.Reader":
		br := bytes.NewReader(r.data)
		return &wrappedReader{br, func() int { return len(r.data) - br.Len() }}
	case "bytes.Buffer":
		bb := bytes.NewBuffer(append([]byte{}, r.data...))
		return &wrappedReader{bb, func() int { return len(r.data) - bb.Len() }}
	case "strings.Reader":
		sr := strings.NewReader(string(r.data))
		return &wrappedReader{sr, func() int { return len(r.data) - sr.Len() }}
	case "limited":
		lr := &io.LimitedReader{R: bytes.NewReader(r.data), N: int64(len(r.data))}
		return &wrappedReader{lr, func() int { return len(r.data) - int(lr.N) }}
	}
	fatal("unknown reader kind %q", kind)
	return nil
}

func newScriptedReader(data []byte, plan readerPlan) *scriptedReader {
	d := data
	if plan.Cut != nil && *plan.Cut >= 0 && *plan.Cut < len(d) {
		d = d[:*plan.Cut]
	}
	return &scriptedReader{data: d, plan: plan}
}

func (r *scriptedReader) fateErr() (error, string) {
	if r.plan.Fate == "err" {
		return injected(r.plan.EKind), "E"
	}
	return io.EOF, "eof"
}

func (r *scriptedReader) Read(p []byte) (int, error) {
	rem := len(r.data) - r.pos
	if rem == 0 {
		err, tag := r.fateErr()
		r.calls = append(r.calls, readCall{len(p), 0, tag})
		return 0, err
	}
	want := rem
	if r.carry > 0 {
		want = r.carry
	} else if r.ci < len(r.plan.Chunks) {
		want = r.plan.Chunks[r.ci]
		r.ci++
	}
	if want > rem {
		want = rem
	}
	n := want
	if n > len(p) {
		n = len(p)
	}
	r.carry = want - n
	copy(p, r.data[r.pos:r.pos+n])
	r.pos += n
	if r.pos == len(r.data) && r.plan.With && n > 0 {
		err, tag := r.fateErr()
		r.calls = append(r.calls, readCall{len(p), n, tag})
		return n, err
	}
	r.calls = append(r.calls, readCall{len(p), n, "nil"})
	return n, nil
}

func (r *scriptedReader) takeCalls() []readCall {
	c := r.calls
	r.calls = nil
	if c == nil {
		c = []readCall{}
	}
	return c
}

type writerPlan struct {
	Kind string `json:"kind"` // "all" | "fail" (accept K bytes in total, then E)
	K    int    `json:"k"`
	Step int    `json:"step"` // >0: accept at most Step bytes per call without error? (not io.Writer conforming) unused
	Rich bool   `json:"rich"` // the writer also offers WriteByte, WriteString and ReadFrom
	EKind string `json:"ekind"`
}

// richWriter: the scripted writer with the extra method set of bytes.Buffer / bufio.Writer; each call is a logged Write.
type richWriter struct{ *scriptedWriter }

func (w richWriter) WriteByte(c byte) error {
	_, err := w.Write([]byte{c})
	return err
}
func (w richWriter) WriteString(s string) (int, error) { return w.Write([]byte(s)) }
func (w richWriter) ReadFrom(r io.Reader) (int64, error) {
	data, err := io.ReadAll(r)
	if err != nil {
		return 0, err
	}
	n, err := w.Write(data)
	return int64(n), err
}

type writeCall struct {
	Len int    `json:"len"`
	K   int    `json:"k"`
	E   string `json:"e"`
}

type scriptedWriter struct {
	plan     writerPlan
	accepted []byte
	offered  [][]byte
	calls    []writeCall
}

func (w *scriptedWriter) Write(p []byte) (int, error) {
	cp := make([]byte, len(p))
	copy(cp, p)
	w.offered = append(w.offered, cp)
	if w.plan.Kind == "fail" {
		room := w.plan.K - len(w.accepted)
		if room < 0 {
			room = 0
		}
		if len(p) > room || room == 0 {
			w.accepted = append(w.accepted, p[:min(room, len(p))]...)
			k := min(room, len(p))
			w.calls = append(w.calls, writeCall{len(p), k, "E"})
			return k, injected(w.plan.EKind)
		}
	}
	w.accepted = append(w.accepted, p...)
	w.calls = append(w.calls, writeCall{len(p), len(p), "nil"})
	return len(p), nil
}

func min(a, b int) int {
	if a < b {
		return a
	}
	return b
}
