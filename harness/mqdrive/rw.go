package main

// Scripted io.Reader / io.Writer: the environment side of StreamIO.tla.
// They follow a plan chosen by the specification and log every call.

import (
	"errors"
	"io"
)

// ErrInjected is the transport failure value E of the specification.
var ErrInjected = errors.New("verif: injected transport failure")

type readerPlan struct {
	Chunks []int  `json:"chunks"` // sizes of successive deliveries; 0 = a (0,nil) read; exhausted = deliver all that fits
	Fate   string `json:"fate"`   // "eof" | "err" | "" (= eof)
	With   bool   `json:"with"`   // fate returned together with the last delivered bytes
	Cut    *int   `json:"cut"`    // absent: whole stream; else only bytes[:cut] are ever delivered
}

type readCall struct {
	Req int    `json:"req"`
	N   int    `json:"n"`
	E   string `json:"e"`
}

type scriptedReader struct {
	data  []byte
	pos   int
	plan  readerPlan
	ci    int
	carry int // rest of a chunk that did not fit the caller's buffer
	calls []readCall
	dead  bool
}

func newScriptedReader(data []byte, plan readerPlan) *scriptedReader {
	d := data
	if plan.Cut != nil && *plan.Cut >= 0 && *plan.Cut < len(d) {
		d = d[:*plan.Cut]
	}
	return &scriptedReader{data: d, plan: plan}
}

func (r *scriptedReader) fateErr() (error, string) {
	if r.plan.Fate == "err" {
		return ErrInjected, "E"
	}
	return io.EOF, "eof"
}

func (r *scriptedReader) Read(p []byte) (int, error) {
	rem := len(r.data) - r.pos
	if rem == 0 {
		err, tag := r.fateErr()
		r.calls = append(r.calls, readCall{len(p), 0, tag})
		return 0, err
	}
	want := rem
	if r.carry > 0 {
		want = r.carry
	} else if r.ci < len(r.plan.Chunks) {
		want = r.plan.Chunks[r.ci]
		r.ci++
	}
	if want > rem {
		want = rem
	}
	n := want
	if n > len(p) {
		n = len(p)
	}
	r.carry = want - n
	copy(p, r.data[r.pos:r.pos+n])
	r.pos += n
	if r.pos == len(r.data) && r.plan.With && n > 0 {
		err, tag := r.fateErr()
		r.calls = append(r.calls, readCall{len(p), n, tag})
		return n, err
	}
	r.calls = append(r.calls, readCall{len(p), n, "nil"})
	return n, nil
}

func (r *scriptedReader) takeCalls() []readCall {
	c := r.calls
	r.calls = nil
	if c == nil {
		c = []readCall{}
	}
	return c
}

type writerPlan struct {
	Kind string `json:"kind"` // "all" | "fail" (accept K bytes in total, then E)
	K    int    `json:"k"`
	Step int    `json:"step"` // >0: accept at most Step bytes per call without error? (not io.Writer conforming) unused
}

type writeCall struct {
	Len int    `json:"len"`
	K   int    `json:"k"`
	E   string `json:"e"`
}

type scriptedWriter struct {
	plan     writerPlan
	accepted []byte
	offered  [][]byte
	calls    []writeCall
}

func (w *scriptedWriter) Write(p []byte) (int, error) {
	cp := make([]byte, len(p))
	copy(cp, p)
	w.offered = append(w.offered, cp)
	if w.plan.Kind == "fail" {
		room := w.plan.K - len(w.accepted)
		if room < 0 {
			room = 0
		}
		if len(p) > room || room == 0 {
			w.accepted = append(w.accepted, p[:min(room, len(p))]...)
			k := min(room, len(p))
			w.calls = append(w.calls, writeCall{len(p), k, "E"})
			return k, ErrInjected
		}
	}
	w.accepted = append(w.accepted, p...)
	w.calls = append(w.calls, writeCall{len(p), len(p), "nil"})
	return len(p), nil
}

func min(a, b int) int {
	if a < b {
		return a
	}
	return b
}
