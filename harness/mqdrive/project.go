package main

// Projection of a packet value onto JSON: every exported accessor of the
// concrete type, found by reflection, so the driver has no per-field
// knowledge of the library.

import (
	"fmt"
	"reflect"
	"sync"

	"github.com/gregoryv/mq"
)

// A panic raised by the library while the driver merely *observes* a packet (an accessor, WellFormed, String for the
// printed size, the re-encoding of a decoded packet) is not a panic of the operation the step performs: it is recorded
// as a Panic event of its own (op = what was being called) behind the step's event, the observation simply lacks the
// value, and the program goes on.
var (
	sideMu     sync.Mutex
	sidePanics []obj
)

func guarded(op, method string, f func()) (ok bool) {
	defer func() {
		if r := recover(); r != nil {
			if _, isBudget := r.(budgetAbort); isBudget {
				panic(r)
			}
			sideMu.Lock()
			sidePanics = append(sidePanics, obj{"ev": "Panic", "op": op, "m": method, "site": panicSite(), "msg": fmt.Sprint(r), "side": true})
			sideMu.Unlock()
			ok = false
		}
	}()
	f()
	return true
}

func takeSidePanics() []obj {
	sideMu.Lock()
	defer sideMu.Unlock()
	out := sidePanics
	sidePanics = nil
	return out
}

type obj = map[string]any

func ints(b []byte) []int {
	out := make([]int, len(b))
	for i, v := range b {
		out[i] = int(v)
	}
	return out
}

func u32(v uint32) []int { return []int{int(v >> 16), int(v & 0xffff)} }

var (
	tPublishPtr  = reflect.TypeOf((*mq.Publish)(nil))
	tMalformed   = reflect.TypeOf((*mq.Malformed)(nil))
	tTopicFilter = reflect.TypeOf(mq.TopicFilter{})
	tUserProps   = reflect.TypeOf(mq.UserProperties{})
)

// skipped accessors: rendered separately or not observations of state
var skipMethod = map[string]bool{"String": true, "WellFormed": true, "GoString": true, "Error": true}

func convValue(v reflect.Value, depth int) (any, bool) {
	t := v.Type()
	switch {
	case t == tPublishPtr:
		if v.IsNil() {
			return obj{"has": false}, true
		}
		if depth > 2 {
			return obj{"has": true}, true
		}
		return obj{"has": true, "val": projectDepth(v.Interface(), depth+1)}, true
	case t == tTopicFilter:
		tf := v.Interface().(mq.TopicFilter)
		return []any{ints([]byte(tf.Filter())), int(tf.Options())}, true
	case t == tUserProps:
		up := v.Interface().(mq.UserProperties)
		out := make([]any, len(up))
		for i, p := range up {
			out[i] = []any{ints([]byte(p[0])), ints([]byte(p[1]))}
		}
		return out, true
	}
	switch t.Kind() {
	case reflect.Bool:
		return v.Bool(), true
	case reflect.Uint8, reflect.Uint16, reflect.Uint, reflect.Uint64:
		return int(v.Uint()), true
	case reflect.Uint32:
		return u32(uint32(v.Uint())), true
	case reflect.Int, reflect.Int64, reflect.Int32, reflect.Int16, reflect.Int8:
		if v.Int() > 2147483647 { // TLC's integers are 32-bit: everything beyond is logged as 2^31 - 1
			return 2147483647, true
		}
		return int(v.Int()), true
	case reflect.String:
		return ints([]byte(v.String())), true
	case reflect.Slice:
		if t.Elem().Kind() == reflect.Uint8 {
			return ints(v.Bytes()), true
		}
		out := make([]any, v.Len())
		for i := 0; i < v.Len(); i++ {
			e, ok := convValue(v.Index(i), depth)
			if !ok {
				return nil, false
			}
			out[i] = e
		}
		return out, true
	case reflect.Array:
		out := make([]any, v.Len())
		for i := 0; i < v.Len(); i++ {
			e, ok := convValue(v.Index(i), depth)
			if !ok {
				return nil, false
			}
			out[i] = e
		}
		return out, true
	}
	return nil, false
}

func project(p any) obj { return projectDepth(p, 0) }

func projectDepth(p any, depth int) obj {
	out := obj{}
	v := reflect.ValueOf(p)
	t := v.Type()
	for i := 0; i < t.NumMethod(); i++ {
		m := t.Method(i)
		if skipMethod[m.Name] {
			continue
		}
		mt := m.Type
		if mt.NumIn() != 1 || mt.NumOut() != 1 || mt.Out(0) == tMalformed {
			continue
		}
		guarded("Accessor", m.Name, func() {
			res := v.Method(i).Call(nil)
			if c, ok := convValue(res[0], depth); ok {
				out[m.Name] = c
			}
		})
	}
	// flag bytes exposed through HasFlag(mask)
	if hf := v.MethodByName("HasFlag"); hf.IsValid() && hf.Type().NumIn() == 1 && hf.Type().In(0).Kind() == reflect.Uint8 {
		guarded("Accessor", "HasFlag", func() {
			flags := 0
			for k := 0; k < 8; k++ {
				r := hf.Call([]reflect.Value{reflect.ValueOf(byte(1 << k))})
				if r[0].Bool() {
					flags |= 1 << k
				}
			}
			out["Flags"] = flags
		})
	}
	// embedded exported fields (UserProperties)
	if t.Kind() == reflect.Ptr && t.Elem().Kind() == reflect.Struct {
		st := t.Elem()
		for i := 0; i < st.NumField(); i++ {
			f := st.Field(i)
			if f.PkgPath != "" { // unexported
				continue
			}
			if c, ok := convValue(v.Elem().Field(i), depth); ok {
				out[f.Name] = c
			}
		}
	}
	// WellFormed, where the type has it
	if wf, ok := p.(mq.HasWellFormed); ok {
		guarded("WellFormed", "WellFormed", func() { out["WF"] = wf.WellFormed() == nil })
	}
	out["type"] = t.Elem().Name()
	return out
}
