package main

// mqdrive: executes programs against the real gregoryv/mq and records traces.
//
//	mqdrive run -in programs.ndjson -out trace.ndjson [-workers N] [-timeout ms] [-mem MiB]
//	mqdrive worker -in programs.ndjson -out trace.ndjson -skip K [-only K]
//
// "run" is a supervisor: it shards the programs over worker processes, and
// when a worker dies (memory ceiling, watchdog, fatal runtime error) it
// records an Abort event for the program that was running, re-runs that
// program alone to confirm, and restarts the worker behind it.

import (
	"bufio"
	"bytes"
	"encoding/json"
	"flag"
	"fmt"
	"os"
	"os/exec"
	"path/filepath"
	"runtime"
	"runtime/debug"
	"strings"
	"sync"
	"sync/atomic"
	"time"
)

func fatal(f string, a ...any) {
	fmt.Fprintf(os.Stderr, "mqdrive: "+f+"\n", a...)
	os.Exit(2)
}

func readPrograms(path string) [][]byte {
	f, err := os.Open(path)
	if err != nil {
		fatal("%v", err)
	}
	defer f.Close()
	var out [][]byte
	sc := bufio.NewScanner(f)
	sc.Buffer(make([]byte, 1<<20), 1<<30)
	for sc.Scan() {
		b := sc.Bytes()
		if len(b) == 0 {
			continue
		}
		out = append(out, append([]byte{}, b...))
	}
	if err := sc.Err(); err != nil {
		fatal("%v", err)
	}
	return out
}

// ---- worker -----------------------------------------------------------

var curProg atomic.Int64   // index of the program being executed
var curStart atomic.Int64  // unix nanos when it started

func worker(in, out string, skip, only int, timeoutMs, memMiB int) {
	progs := readPrograms(in)
	of, err := os.OpenFile(out, os.O_CREATE|os.O_WRONLY|os.O_APPEND, 0o644)
	if err != nil {
		fatal("%v", err)
	}
	w := bufio.NewWriterSize(of, 1<<20)
	m := &machine{out: json.NewEncoder(w), flush: w.Flush}
	debug.SetGCPercent(200)
	if os.Getenv("MQDRIVE_PROCS") != "all" {
		// one P: sync.Pool, scheduling and allocation behave the same from run to run (the watchdog goroutine still
		// preempts a runaway decode); the concurrency programs of C13 ask for all processors
		runtime.GOMAXPROCS(1)
	}
	curProg.Store(-1)
	// monitor: memory ceiling and per-program watchdog; exits the process, the supervisor takes over
	go func() {
		var ms runtime.MemStats
		for {
			time.Sleep(5 * time.Millisecond)
			if curProg.Load() < 0 {
				continue
			}
			el := time.Duration(time.Now().UnixNano() - curStart.Load())
			if el > time.Duration(timeoutMs)*time.Millisecond {
				m.abort("time", 3)
			}
			runtime.ReadMemStats(&ms)
			if ms.HeapAlloc > uint64(memMiB)<<20 {
				m.abort("mem", 4)
			}
		}
	}()
	end := len(progs)
	if only > 0 && skip+only < end {
		end = skip + only
	}
	for i := skip; i < end; i++ {
		var pr program
		if err := json.Unmarshal(progs[i], &pr); err != nil {
			fatal("program %d: %v", i, err)
		}
		w.Flush() // everything before this program is on disk if we die inside it
		curStart.Store(time.Now().UnixNano())
		curProg.Store(int64(i))
		m.runProgram(pr)
		curProg.Store(-1)
		// progress marker for the supervisor
		fmt.Fprintf(w, "{\"ev\":\"Done\",\"idx\":%d}\n", i)
	}
	w.Flush()
	of.Close()
}

// ---- supervisor -------------------------------------------------------

type shardResult struct {
	aborts int
}

func runShard(self, in, out string, nprogs, timeoutMs, memMiB int) int {
	os.Remove(out)
	skip := 0
	aborts := 0
	for skip < nprogs {
		cmd := exec.Command(self, "worker", "-in", in, "-out", out, "-skip", fmt.Sprint(skip),
			"-timeout", fmt.Sprint(timeoutMs), "-mem", fmt.Sprint(memMiB))
		cmd.Stderr = os.Stderr
		raceLog := out + ".race"
		cmd.Env = append(os.Environ(), "GORACE=halt_on_error=1 exitcode=66 log_path="+raceLog)
		err := cmd.Run()
		if err == nil {
			return aborts
		}
		code := -1
		if ee, ok := err.(*exec.ExitError); ok {
			code = ee.ExitCode()
		}
		if code == 2 {
			fatal("worker reported a harness error (shard %s)", in)
		}
		if code == 66 {
			// the race detector stopped the worker: no false positives, no confirmation run
			done := lastDone(out, skip)
			bad := done + 1
			truncateAfterDone(out, done)
			var pr program
			progs := readPrograms(in)
			if bad < len(progs) {
				json.Unmarshal(progs[bad], &pr)
			}
			of, _ := os.OpenFile(out, os.O_CREATE|os.O_WRONLY|os.O_APPEND, 0o644)
			rb, _ := json.Marshal(obj{"ev": "Reset", "prog": pr.ID, "fam": pr.Fam})
			of.Write(rb)
			rr, _ := json.Marshal(obj{"ev": "Race", "idx": bad, "sites": raceSites(raceLog)})
			of.Write([]byte("\n"))
			of.Write(rr)
			fmt.Fprintf(of, "\n{\"ev\":\"Done\",\"idx\":%d}\n", bad)
			of.Close()
			aborts++
			skip = bad + 1
			continue
		}
		// find the last completed program
		done := lastDone(out, skip)
		bad := done + 1
		why := map[int]string{3: "time", 4: "mem"}[code]
		if why == "" {
			why = fmt.Sprintf("crash(exit %d)", code)
		}
		// confirm alone with 4x the budget
		tmp := out + ".confirm"
		os.Remove(tmp)
		c2 := exec.Command(self, "worker", "-in", in, "-out", tmp, "-skip", fmt.Sprint(bad), "-only", "1",
			"-timeout", fmt.Sprint(4*timeoutMs), "-mem", fmt.Sprint(memMiB))
		c2.Stderr = os.Stderr
		err2 := c2.Run()
		truncateAfterDone(out, done)
		of, _ := os.OpenFile(out, os.O_WRONLY|os.O_APPEND, 0o644)
		if err2 == nil {
			// passed alone: take that trace, no event
			b, _ := os.ReadFile(tmp)
			of.Write(b)
		} else {
			code2 := -1
			if ee, ok := err2.(*exec.ExitError); ok {
				code2 = ee.ExitCode()
			}
			cb, _ := os.ReadFile(tmp)
			cb = completeLines(cb)
			if bytes.Contains(cb, []byte("\"ev\":\"Abort\"")) {
				of.Write(cb) // the worker recorded what it was doing when the watchdog fired
			} else {
				var pr program
				progs := readPrograms(in)
				if bad < len(progs) {
					json.Unmarshal(progs[bad], &pr)
				}
				rb, _ := json.Marshal(obj{"ev": "Reset", "prog": pr.ID, "fam": pr.Fam})
				of.Write(rb)
				of.Write([]byte("\n"))
				fmt.Fprintf(of, "{\"ev\":\"Abort\",\"why\":%q,\"op\":\"?\",\"idx\":%d,\"confirm\":%d}\n", why, bad, code2)
			}
			fmt.Fprintf(of, "{\"ev\":\"Done\",\"idx\":%d}\n", bad)
			aborts++
		}
		of.Close()
		os.Remove(tmp)
		skip = bad + 1
	}
	return aborts
}

// raceSites extracts the library functions named in the race detector's report.
func raceSites(prefix string) []string {
	sites := []string{}
	matches, _ := filepath.Glob(prefix + ".*")
	seen := map[string]bool{}
	for _, f := range matches {
		b, _ := os.ReadFile(f)
		for _, line := range strings.Split(string(b), "\n") {
			line = strings.TrimSpace(line)
			if i := strings.Index(line, "gregoryv/mq."); i >= 0 && !strings.HasPrefix(line, "/") {
				s := strings.TrimSuffix(line[i+len("gregoryv/mq."):], "()")
				if !seen[s] && len(sites) < 8 {
					seen[s] = true
					sites = append(sites, s)
				}
			}
		}
		os.Remove(f)
	}
	return sites
}

func completeLines(b []byte) []byte {
	for i := len(b) - 1; i >= 0; i-- {
		if b[i] == '\n' {
			return b[:i+1]
		}
	}
	return nil
}

// lastDone scans the trace for the highest Done marker.
func lastDone(path string, skip int) int {
	last := skip - 1
	f, err := os.Open(path)
	if err != nil {
		return last
	}
	defer f.Close()
	sc := bufio.NewScanner(f)
	sc.Buffer(make([]byte, 1<<20), 1<<30)
	for sc.Scan() {
		var d struct {
			Ev  string `json:"ev"`
			Idx int    `json:"idx"`
		}
		b := sc.Bytes()
		if len(b) < 40 && json.Unmarshal(b, &d) == nil && d.Ev == "Done" {
			last = d.Idx
		}
	}
	return last
}

// truncateAfterDone cuts the trace back to the end of the Done marker of program idx.
func truncateAfterDone(path string, idx int) {
	b, err := os.ReadFile(path)
	if err != nil {
		return
	}
	if idx < 0 {
		os.WriteFile(path, nil, 0o644)
		return
	}
	marker := []byte(fmt.Sprintf("{\"ev\":\"Done\",\"idx\":%d}\n", idx))
	pos := lastIndex(b, marker)
	if pos < 0 {
		// marker of an earlier run segment: keep everything up to the last newline-complete Done
		return
	}
	os.WriteFile(path, b[:pos+len(marker)], 0o644)
}

func lastIndex(b, sep []byte) int {
	for i := len(b) - len(sep); i >= 0; i-- {
		if string(b[i:i+len(sep)]) == string(sep) {
			return i
		}
	}
	return -1
}

func supervisor(in, out string, workers, timeoutMs, memMiB int) {
	progs := readPrograms(in)
	if workers < 1 {
		workers = 1
	}
	if workers > len(progs) {
		workers = len(progs)
	}
	if workers == 0 {
		os.WriteFile(out, nil, 0o644)
		return
	}
	self, _ := os.Executable()
	// contiguous shards keep program order inside each shard; shard k -> out.k
	var wg sync.WaitGroup
	per := (len(progs) + workers - 1) / workers
	aborts := make([]int, workers)
	for k := 0; k < workers; k++ {
		lo, hi := k*per, (k+1)*per
		if hi > len(progs) {
			hi = len(progs)
		}
		if lo >= hi {
			continue
		}
		shardIn := fmt.Sprintf("%s.in.%d", out, k)
		f, _ := os.Create(shardIn)
		bw := bufio.NewWriter(f)
		for _, p := range progs[lo:hi] {
			bw.Write(p)
			bw.WriteByte('\n')
		}
		bw.Flush()
		f.Close()
		wg.Add(1)
		go func(k, n int, shardIn string) {
			defer wg.Done()
			aborts[k] = runShard(self, shardIn, fmt.Sprintf("%s.%d", out, k), n, timeoutMs, memMiB)
			os.Remove(shardIn)
		}(k, hi-lo, shardIn)
	}
	wg.Wait()
	total := 0
	for _, a := range aborts {
		total += a
	}
	fmt.Printf("{\"programs\":%d,\"shards\":%d,\"aborts\":%d}\n", len(progs), workers, total)
}

func main() {
	if len(os.Args) < 2 {
		fatal("usage: mqdrive run|worker ...")
	}
	fs := flag.NewFlagSet(os.Args[1], flag.ExitOnError)
	in := fs.String("in", "", "programs (ND-JSON)")
	out := fs.String("out", "", "trace (ND-JSON)")
	workers := fs.Int("workers", runtime.NumCPU(), "worker processes")
	skip := fs.Int("skip", 0, "worker: first program index")
	only := fs.Int("only", 0, "worker: number of programs (0 = all)")
	timeoutMs := fs.Int("timeout", 2000, "per-program watchdog in ms")
	memMiB := fs.Int("mem", 1024, "heap ceiling per worker in MiB")
	bits := fs.Int("bits", 28, "sweep: all values below 2^bits (28 = the whole range)")
	fs.Parse(os.Args[2:])
	switch os.Args[1] {
	case "run":
		supervisor(*in, *out, *workers, *timeoutMs, *memMiB)
	case "worker":
		worker(*in, *out, *skip, *only, *timeoutMs, *memMiB)
	case "sweep":
		sweep(*bits)
	default:
		fatal("unknown command %q", os.Args[1])
	}
}
