package main

// Concurrent read-only operations (C13) and the variable byte integer
// probes behind hook H1 (C15).

import (
	"bufio"
	"bytes"
	"encoding/json"
	"fmt"
	"io"
	"reflect"
	"sync"

	"github.com/gregoryv/mq"
)

// runConc starts s.Procs goroutines; goroutine g performs ops[g % len(ops)]
// on handle hs[g % len(hs)], s.N times, after a common barrier.
func (m *machine) runConc(s step) {
	type result struct {
		G     int    `json:"g"`
		Op    string `json:"op"`
		H     int    `json:"h"`
		Same  bool   `json:"same"`
		Bytes []int  `json:"bytes"`
		OK    bool   `json:"ok"`
		Frame []int  `json:"frame,omitempty"`
		Obs   obj    `json:"obs,omitempty"`
	}
	results := make([]result, s.Procs)
	var start, done sync.WaitGroup
	start.Add(1)
	for g := 0; g < s.Procs; g++ {
		op := s.Ops[g%len(s.Ops)]
		h := s.Hs[g%len(s.Hs)]
		p := m.pkts[h]
		frame := m.written[h]
		if op == "ReadPacket" && frame == nil {
			op = "WriteTo" // nothing written yet: the first encoding ever happens concurrently
		}
		if op == "ReadFrame" { // goroutine g reads its own frame from the list given in the step
			frame = toBytes(s.Frames[g%len(s.Frames)])
		}
		results[g] = result{G: g, Op: op, H: h, Same: true, OK: true, Bytes: []int{}}
		if op == "ReadFrame" {
			results[g].Frame = ints(frame)
		}
		done.Add(1)
		go func(g int, op string, p any, frame []byte) {
			defer done.Done()
			defer func() {
				if r := recover(); r != nil {
					results[g].OK = false
				}
			}()
			start.Wait()
			var first []byte
			for i := 0; i < s.N; i++ {
				switch op {
				case "WriteTo":
					var buf bytes.Buffer
					p.(io.WriterTo).WriteTo(&buf)
					if first == nil {
						first = append([]byte{}, buf.Bytes()...)
					} else if !bytes.Equal(first, buf.Bytes()) {
						results[g].Same = false
					}
				case "String":
					_ = p.(fmt.Stringer).String()
				case "Dump":
					if pk, ok := p.(mq.Packet); ok {
						mq.Dump(io.Discard, pk)
					}
				case "WellFormed":
					if wf, ok := p.(mq.HasWellFormed); ok {
						_ = wf.WellFormed()
					}
				case "Accessors":
					_ = project(p)
				case "ReadFrame":
					q, err := mq.ReadPacket(bytes.NewReader(frame))
					if err != nil || isNilPacket(q) {
						results[g].OK = false
						continue
					}
					o := project(q)
					js, _ := json.Marshal(o)
					if first == nil {
						first = js
						results[g].Obs = o
					} else if !bytes.Equal(first, js) {
						results[g].Same = false
					}
				case "ReadPacket":
					q, err := mq.ReadPacket(bytes.NewReader(frame))
					if err != nil {
						results[g].OK = false
						continue
					}
					var buf bytes.Buffer
					q.WriteTo(&buf)
					if first == nil {
						first = append([]byte{}, buf.Bytes()...)
					} else if !bytes.Equal(first, buf.Bytes()) {
						results[g].Same = false
					}
				}
			}
			if op != "ReadFrame" {
				results[g].Bytes = ints(first)
			}
		}(g, op, p, frame)
	}
	start.Done()
	done.Wait()
	e := obj{"ev": "Conc", "hs": s.Hs, "ops": s.Ops, "procs": s.Procs, "n": s.N, "results": results}
	m.attachObs(e, 0, false)
	m.emit(e)
}

// ---- C15 --------------------------------------------------------------

// closed forms VBI4 / VBIRead of spec/Bytes.tla, transcribed; validated by TLC on every event
func refEnc(v uint) []int {
	switch {
	case v < 128:
		return []int{int(v)}
	case v < 16384:
		return []int{int(128 + v%128), int(v / 128)}
	case v < 2097152:
		return []int{int(128 + v%128), int(128 + (v/128)%128), int(v / 16384)}
	}
	return []int{int(128 + v%128), int(128 + (v/128)%128), int(128 + (v/16384)%128), int(v / 2097152)}
}

// refRead: kind 0 reject, 1 value; width; minimal
func refRead(b []byte) (kind int, val uint, width int, minimal bool) {
	mult := uint(1)
	for i := 0; i < len(b) && i < 4; i++ {
		val += uint(b[i]&127) * mult
		if b[i]&128 == 0 {
			return 1, val, i + 1, i == 0 || b[i] != 0
		}
		mult *= 128
	}
	return 0, 0, 0, false
}

func vbiDecEvent(b []byte) obj {
	mv, mw, merr := verifVBIDecode(b)
	sv, sn, serr := verifVBIRead(bytes.NewReader(b))
	rk, rv, rw, rm := refRead(b)
	// the streaming decoder again, the same bytes delivered in other legal ways: a zero-length read before every byte,
	// the last byte together with io.EOF, one byte at a time with the last one carrying io.EOF, through a bufio.Reader
	var ones, zeros []int
	for range b {
		ones = append(ones, 1)
		zeros = append(zeros, 0, 1)
	}
	others := []any{}
	for i, plan := range []readerPlan{{Chunks: zeros}, {With: true}, {Chunks: ones, With: true}, {Chunks: ones}} {
		var rd io.Reader = newScriptedReader(b, plan)
		if i == 3 {
			rd = bufio.NewReaderSize(rd, 16)
		}
		v2, n2, err2 := verifVBIRead(rd)
		others = append(others, obj{"ok": err2 == nil, "val": int(v2), "n": int(n2)})
	}
	return obj{"ev": "VBIDec", "bytes": ints(b), "others": others,
		"mem":    obj{"ok": merr == nil, "val": int(mv), "width": mw},
		"stream": obj{"ok": serr == nil, "val": int(sv), "n": int(sn)},
		"ref":    obj{"kind": rk, "val": int(rv), "width": rw, "minimal": rm}}
}

func (m *machine) runVBI(s step) {
	switch s.Key {
	case "enc":
		for _, v := range s.Bytes { // values
			b := verifVBIEncode(uint(v))
			m.emit(obj{"ev": "VBIEnc", "v": v, "bytes": ints(b), "ref": refEnc(uint(v))})
			m.emit(vbiDecEvent(b))
		}
	case "dec":
		m.emit(vbiDecEvent(toBytes(s.Bytes)))
	default:
		fatal("VBI: unknown key %q", s.Key)
	}
	_ = reflect.TypeOf
}
