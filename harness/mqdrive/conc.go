package main

func (m *machine) runConc(s step) { fatal("Conc not built") }
func (m *machine) runVBI(s step)  { fatal("VBI not built") }
