"""Per-property plans: which program families are generated, which notes count."""
import json, os, zlib
import vlib
from vlib import assign_ids, Infra

ALL_TYPES = list(range(1, 16))
TYPE_NAMES = ["Undefined", "Connect", "ConnAck", "Publish", "PubAck", "PubRec", "PubRel", "PubComp", "Subscribe", "SubAck", "Unsubscribe",
              "UnsubAck", "PingReq", "PingResp", "Disconnect", "Auth"]
TYPE_PARTS = [[t] for t in ALL_TYPES]
ONE_PART = [ALL_TYPES]
LEVEL_MC = "model_checking"


def by_id(progs):
    return {p["id"]: p for p in progs}


def sample_progs(progs, n=4):
    out = []
    step = max(1, len(progs) // n)
    for p in progs[::step][:n]:
        s = json.dumps(p)
        out.append(json.loads(s) if len(s) < 1500 else {"id": p["id"], "fam": p.get("fam"), "steps": len(p["steps"]), "truncated": s[:600]})
    return out


def distinct_classes(progs):
    """Distinct non-trivial cases: programs with at least one library operation, counted once per distinct
    step list (operations, arguments, byte strings, schedules) -- measured on the generated programs."""
    seen = set()
    for p in progs:
        if len(p["steps"]) < 1:
            continue
        seen.add(hash(json.dumps(p["steps"], sort_keys=True)))
    return len(seen)


def api_cfgs(run, depth, start="new", pres=("none",)):
    """MC_API configurations: one TLC process per packet type (x slice x read-only operation before the history)."""
    cfgs = []
    slices = 4 if depth >= 3 else 1
    for t in ALL_TYPES:
        for pre in pres:
            for sl in range(slices):
                cfgs.append(("api-%s-%s-%d-%d" % (start, pre, t, sl),
                             "SPECIFICATION Spec\nINVARIANT FlagsInStep\nINVARIANT LastWriteWins\nINVARIANT Emit\n"
                             "PROPERTY FrameCondition\nCHECK_DEADLOCK FALSE\n"
                             "CONSTANTS T = %d DEPTH = %d SLICE = %d SLICES = %d WRITES = %s START = \"%s\" PRE = \"%s\"\n"
                             % (t, depth, sl, slices, "TRUE" if depth >= 3 else "FALSE", start, pre)))
    return cfgs


def gather(run, fams):
    """fams: list of (family, parts) or ("api", depth). All generator processes of all families share one pool."""
    from concurrent.futures import ThreadPoolExecutor
    jobs = []
    for fam, arg in fams:
        if fam == "api":
            jobs.append(lambda arg=arg: run.model_programs("MC_API", api_cfgs(run, arg), "api"))
        elif fam == "apifull":      # histories that start on a packet carrying every field, after a WriteTo / String
            jobs.append(lambda arg=arg: run.model_programs("MC_API", api_cfgs(run, arg, "full", ("write", "diag")), "apifull"))
        elif fam == "apinew":       # histories on the constructor's packet after it was written / printed once
            jobs.append(lambda arg=arg: run.model_programs("MC_API", api_cfgs(run, arg, "new", ("write", "diag") if run.tier == "thorough" else ("write",)), "apinew"))
        elif fam == "apidec":       # histories on the packet ReadPacket returned for the frame of that full packet
            jobs.append(lambda arg=arg: run.model_programs("MC_API", api_cfgs(run, arg, "decoded", ("none", "write")), "apidec"))
        else:
            jobs.append(lambda fam=fam, arg=arg: run.generate(fam, arg))
    if len(jobs) == 1:
        return jobs[0]()
    progs = []
    with ThreadPoolExecutor(max_workers=len(jobs)) as ex:
        for res in ex.map(lambda j: j(), jobs):
            progs += res
    return progs


MC_STREAM_CFG = ("SPECIFICATION Spec\nINVARIANT Safety\nINVARIANT PacketOnlyIfComplete\nINVARIANT FaultReported\n"
                 "INVARIANT NoGivingUp\nINVARIANT NotStuck\nPROPERTY Termination\nCHECK_DEADLOCK FALSE\nCONSTANTS MaxZeros = 2\n")


MC_WRITE_CFG = ("SPECIFICATION Spec\nINVARIANT OfferedIsPrefix\nINVARIANT AcceptedWithinOffered\nINVARIANT NoWriteAfterError\n"
                "INVARIANT TruthfulCount\nINVARIANT UndefinedWritesNothing\nINVARIANT OutcomeMatches\nINVARIANT NotStuck\n"
                "PROPERTY Termination\nCHECK_DEADLOCK FALSE\n")


ENDPOINT_CFG = ("SPECIFICATION Spec\nPROPERTY Linearizable\nPROPERTY ReadOnly\nPROPERTY Bystanders\nCHECK_DEADLOCK FALSE\n"
                "CONSTANTS Handles = {h1, h2} Threads = {t1, t2, t3} Values = {v1, v2}\n")


def model_theorems(run, models):
    """Design-level model checking of a specification module; a failure means the specification is wrong (exit 2)."""
    for module, cfg in models:
        rc, text, path = run.tlc(module, cfg, "mc-" + module, workers=4, xmx="4g")
        if rc != 0 or "No error has been found" not in text:
            raise Infra("model checking of %s failed (rc %s); see %s\n%s" % (module, rc, path, vlib.tail(text)))
        os.remove(path)


def xproc_trace(run, shards):
    """Routes the first WriteTo of every copy of a program (run in different worker processes) into one XProc event per program."""
    first = {}
    for sh in shards:
        prog = None
        for line in open(sh):
            if '"ev":"Reset"' in line[:60] or '"ev":"WriteTo"' in line[:200] or '"Reset"' in line or '"WriteTo"' in line:
                e = json.loads(line)
                if e.get("ev") == "Reset":
                    prog = e["prog"]
                elif e.get("ev") == "WriteTo" and prog is not None and e.get("wkind") == "all":
                    base = prog.split("#")[0]
                    if (base, prog) not in first:
                        first[(base, prog)] = [b for part in e["offered"] for b in part]
    groups = {}
    for (base, prog), b in first.items():
        groups.setdefault(base, []).append(b)
    path = os.path.join(run.dir, "t.trace.xproc")
    n = 0
    with open(path, "w") as f:
        for base, outs in groups.items():
            if len(outs) >= 2:
                f.write(json.dumps({"ev": "Reset", "prog": base, "fam": "xproc"}) + "\n")
                f.write(json.dumps({"ev": "XProc", "outs": outs}) + "\n")
                n += 1
    vlib.log("cross-process comparison: %d programs with 2+ processes" % n)
    return path


REQUIRE = {   # vacuity guard: what a run of the check must have exercised at least this often (exit 2 otherwise)
    "C01": {"roundtrip": 1000, "verdict-accept": 1000}, "C02": {"c02-judged": 1000}, "C03": {"verdict-accept": 1500},
    "C04": {"verdict-reject": 2000, "verdict-either": 2000, "Unmarshal": 500}, "C05": {"verdict-reject": 2000, "Unmarshal": 500},
    "C06": {"Read": 5000, "verdict-either": 100}, "C07": {"read-fragmented": 1000, "memo-compared": 1000},
    "C08": {"read-faulty": 1000}, "C09": {"verdict-reject": 5000}, "C10": {"write-faulty": 5000, "WriteTo": 5000},
    "C11": {"WriteN": 1000, "Diag": 2000, "XProc": 500}, "C12": {"Call": 10000}, "C13": {"Conc": 100}, "C14": {"Scribble": 1000, "Unmarshal": 1000},
    "C15": {"VBIDec": 2000, "VBIEnc": 1000}, "C16": {"Read": 3000}, "C17": {"Diag": 1000, "Filter": 500}, "C18": {"CmpDiag": 300},
    "C19": {"Diag": 10000},
}


STD_READERS = ["bufio", "witheof", "bufio16", "bytes.Reader", "onebyte", "bytes.Buffer", "strings.Reader", "limited", "rich", "witherr"]


def reader_variants(run, progs, every):
    """Generation only: every `every`-th reading program again with ReadPacket given a standard reader type (a *bufio.Reader of
    default or minimal size on top of the scripted transport, a bytes.Reader / bytes.Buffer / strings.Reader / io.LimitedReader
    holding the bytes) or the scripted reader with the io.ByteReader method set; sequences additionally get a seeded chunk plan
    under the bufio readers.  The calls through standard readers are judged as a whole (Trace!ReadWrapped)."""
    import copy
    out = []
    rng = run.rng
    k = 0
    for i, pr in enumerate(progs):
        if pr.get("fam") not in ("frames", "seq", "first", "sched", "fault", "mutants", "random"):
            continue
        streams = [st for st in pr["steps"] if st.get("op") == "Stream"]
        if not streams or any("key" in st or "from" in st for st in streams) or (i + run.seed) % every:
            continue
        kind = STD_READERS[(k + run.seed) % len(STD_READERS)]
        k += 1
        cp = copy.deepcopy(pr)
        for st in cp["steps"]:
            if st.get("op") != "Stream":
                continue
            plan = st.get("reader")
            if kind == "rich":
                st.setdefault("reader", {})["rich"] = True
                continue
            if kind in ("witheof", "onebyte", "witherr"):    # the scripted transport itself: io.EOF (or the failure E) together with the
                if not plan:                                 # last bytes, the whole stream at once or one byte at a time
                    n = len(st.get("bytes", []))
                    ones = [1] * n if n <= 300 else [1] * 8 + [n - 8]      # (every logged Read is two TLC steps: long frames get a short run)
                    st["reader"] = {"chunks": ones if kind == "onebyte" else [], "fate": "err" if kind == "witherr" else "eof", "with": True}
                continue
            kd = kind
            if not kd.startswith("bufio") and plan and plan.get("fate") == "err":
                kd = "bufio16"                       # the readers that hold the bytes themselves can only end, not fail
            st["key"] = kd
            if kd.startswith("bufio") and not plan and pr.get("fam") in ("seq", "first") and len(st.get("bytes", [])) > 2:
                n, chunks = len(st["bytes"]), []
                while n > 0:
                    c = min(n, rng.randrange(1, 8)); chunks.append(c); n -= c
                st["reader"] = {"chunks": chunks, "fate": "eof", "with": bool(rng.randrange(2))}
        cp["meta"] = dict(cp.get("meta") or {}, reader=kind)
        out.append(cp)
    return out


EKINDS = ["eof", "eintr", "timeout"]


def ekind_variants(run, progs, every):
    """Generation only: every `every`-th program with a failing transport / writer again, the failure E being an error that
    wraps io.EOF, an interrupted system call, or a timeout (errors.Is(err, E) still holds for each)."""
    import copy
    out, k = [], 0
    for i, pr in enumerate(progs):
        hit = [st for st in pr["steps"] if (st.get("op") == "Stream" and (st.get("reader") or {}).get("fate") == "err")
               or (st.get("op") == "WriteTo" and (st.get("writer") or {}).get("kind") == "fail")]
        if not hit or (i + run.seed) % every:
            continue
        kind = EKINDS[(k + run.seed) % len(EKINDS)]
        k += 1
        cp = copy.deepcopy(pr)
        for st in cp["steps"]:
            if st.get("op") == "Stream" and (st.get("reader") or {}).get("fate") == "err":
                st["reader"]["ekind"] = kind
            elif st.get("op") == "WriteTo" and (st.get("writer") or {}).get("kind") == "fail":
                st["writer"]["ekind"] = kind
        cp["meta"] = dict(cp.get("meta") or {}, ekind=kind)
        out.append(cp)
    return out


def rich_writer_variants(run, progs, every):
    """Generation only: every `every`-th writing program again with a writer that also offers WriteByte / WriteString / ReadFrom."""
    import copy
    out = []
    for i, pr in enumerate(progs):
        if pr.get("fam") not in ("wfault", "build", "api") or (i + run.seed) % every:
            continue
        if not any(st.get("op") == "WriteTo" for st in pr["steps"]):
            continue
        cp = copy.deepcopy(pr)
        for st in cp["steps"]:
            if st.get("op") == "WriteTo":
                w = st.setdefault("writer", {"kind": "all", "k": 0})
                w["rich"] = True
        cp["meta"] = dict(cp.get("meta") or {}, writer="rich")
        out.append(cp)
    return out


def check(run, prop, claims, fams, rule, assumptions, level=LEVEL_MC, keep=None, drive_kw=None, extra_cov=None, models=None,
          extra_progs=None, randoms=0, histories=0, xproc=0, std_readers=0, rich_writers=0, conc_apart=False, ekinds=0):
    if models:
        model_theorems(run, models)
    progs = gather(run, fams) + (extra_progs or [])
    if std_readers:
        progs += reader_variants(run, progs, std_readers)
    if rich_writers:
        progs += rich_writer_variants(run, progs, rich_writers)
    if ekinds:
        progs += ekind_variants(run, progs, ekinds)
    if randoms:
        progs += random_mutants(run, frame_bytes(progs), randoms)
    if histories:
        progs += random_histories(run, histories, 60 if run.tier == "quick" else 200)
    if keep:
        progs = [p for p in progs if keep(p)]
    progs = assign_ids(progs, prop + "-")
    copies = []
    if xproc:      # the same program again in other worker processes; their first encodings are compared by TLC (EvXProc)
        for pr in progs:
            if pr.get("fam") == "build" and run.rng.random() < xproc:
                for r in (1, 2):
                    cp = dict(pr); cp["id"] = "%s#r%d" % (pr["id"], r); cp["steps"] = [s for s in pr["steps"] if s["op"] in ("New", "Call", "Pub", "WriteTo")][:-1]
                    copies.append(cp)
    conc = [pr for pr in progs if pr.get("fam") == "conc"] if conc_apart else []
    if conc:        # the concurrency configurations run in a driver built with -race on all processors, the rest as usual
        rest = [pr for pr in progs if pr.get("fam") != "conc"]
        import copy
        fast = copy.deepcopy(conc)          # without -race, on all processors, many more repetitions: the interleavings themselves
        for pr in fast:
            pr["id"] += "#fast"
            for st in pr["steps"]:
                if st.get("op") == "Conc":
                    st["n"] = st.get("n", 200) * 25
        shards = (run.drive(rest + copies, "t", **(drive_kw or {})) + run.drive(conc, "u", race=True, workers=4, timeout_ms=60000)
                  + run.drive(fast, "w", procs_all=True, workers=4, timeout_ms=60000))
        progs = progs + fast
    else:
        shards = run.drive(progs + copies, "t", **(drive_kw or {}))
    if copies:
        shards = shards + [xproc_trace(run, shards)]
    notes, events = run.validate(shards, "t")
    cov = {"traces_validated_against_impl": len(progs), "programs": len(progs), "events": events,
           "distinct_nontrivial": distinct_classes(progs), "evaluations": len(progs), "rule": rule, "exhaustive": False}
    if extra_cov:
        cov.update(extra_cov)
    return vlib.finish(run, prop, claims, notes, by_id(progs), cov, level, assumptions, sample_progs(progs), require=REQUIRE.get(prop))


def frame_bytes(progs):
    out = []
    for p in progs:
        for s in p["steps"]:
            if s.get("op") == "Stream" and "bytes" in s and len(s["bytes"]) <= 400:
                out.append(s["bytes"])
    return out


def random_mutants(run, corpus, n):
    """Seeded random damage to TLC-generated valid frames (generation only; TLC judges the traces)."""
    rng = run.rng
    progs = []
    if not corpus:
        return progs
    for i in range(n):
        f = list(rng.choice(corpus))
        k = rng.randrange(8)
        if k == 0 and f:            # flip one byte
            j = rng.randrange(len(f)); f[j] = rng.choice([0, 1, 0x7f, 0x80, 0xff, f[j] ^ (1 << rng.randrange(8))])
        elif k == 1 and f:          # raise / lower one byte by one (length fields among them)
            j = rng.randrange(len(f)); f[j] = (f[j] + rng.choice([-1, 1])) % 256
        elif k == 2 and f:          # delete a byte, keep the remaining length
            del f[rng.randrange(len(f))]
        elif k == 3:                # insert a byte
            f.insert(rng.randrange(len(f) + 1), rng.choice([0, 1, 0x26, 0x0b, 0x7f, 0x80, 0xff, rng.randrange(256)]))
        elif k == 4 and len(f) > 2:  # truncate and re-frame (single byte remaining length only)
            cut = rng.randrange(2, len(f))
            if cut - 2 < 128:
                f = [f[0], cut - 2] + f[2:cut]
        elif k == 5:                # splice the head of one frame onto the tail of another
            g = rng.choice(corpus); a = rng.randrange(len(f) + 1); b = rng.randrange(len(g) + 1); f = f[:a] + g[b:]
        elif k == 6:                # pure random bytes behind a plausible header
            body = [rng.randrange(256) for _ in range(rng.randrange(0, 24))]
            f = [rng.randrange(256), len(body)] + body
        else:                       # another type nibble on the same body
            if f:
                f[0] = (rng.randrange(16) << 4) | (f[0] & 15)
        if i % 4 == 3 and len(f) >= 2 and f[1] < 128:      # the body given directly to UnmarshalBinary of the frame's type or another
            tname = TYPE_NAMES[(f[0] >> 4) if rng.random() < 0.7 else rng.randrange(16)]
            progs.append({"fam": "random", "meta": {"kind": "rand-direct", "mut": k},
                          "steps": [{"op": "Buf", "buf": 1, "bytes": f[2:]}, {"op": "Unmarshal", "h": 1, "type": tname, "buf": 1,
                                                                               "key": "new" if rng.random() < 0.5 else ""},
                                    {"op": "Diag", "h": 1}, {"op": "Scribble", "buf": 1}, {"op": "Diag", "h": 1}]})
            continue
        progs.append({"fam": "random", "meta": {"kind": "rand", "mut": k},
                      "steps": [{"op": "Stream", "stream": 1, "bytes": f}, {"op": "ReadPacket", "h": 1, "stream": 1},
                                {"op": "Diag", "h": 1}, {"op": "ReadPacket", "h": 2, "stream": 1}]})
    return progs


def random_histories(run, n, length):
    """Seeded random setter histories built from the call alphabet TLC prints for MC_API with DEPTH = 1."""
    rng = run.rng
    alpha = {}
    for pr in run.model_programs("MC_API", api_cfgs(run, 1), "api-alphabet"):
        t = pr["meta"]["t"]
        calls = [s for s in pr["steps"] if s.get("op") == "Call" and s.get("h") == 1]
        setup = [s for s in pr["steps"] if not (s.get("op") == "Call" and s.get("h") == 1) and s.get("op") in ("Pub", "Call", "New")]
        a = alpha.setdefault(t, {"calls": [], "setup": setup})
        a["calls"] += calls[-1:]
    progs = []
    types = sorted(alpha)
    for i in range(n):
        t = types[i % len(types)]
        a = alpha[t]
        if not a["calls"]:
            continue
        hist = []
        for _ in range(rng.randrange(length // 2, length + 1)):
            hist.append(rng.choice(a["calls"]))
            r = rng.random()
            if r < 0.12:                 # read-only operations in the middle of the history
                hist.append({"op": "WriteTo", "h": 1})
            elif r < 0.16:
                hist.append({"op": "Diag", "h": 1})
        progs.append({"fam": "api", "meta": {"t": t, "kind": "random-history", "len": len(hist)},
                      "steps": a["setup"] + hist + [{"op": "WriteTo", "h": 1}, {"op": "Stream", "stream": 1, "from": 1},
                                                   {"op": "ReadPacket", "h": 9, "stream": 1}, {"op": "Diag", "h": 1}]})
    return progs


BUILD_RULE = ("one program per abstract packet of spec/Gen.tla built through constructors and setters (family build: 15 types x "
              "property subsets / orders / explicit zeros x short forms x boundary string lengths x remaining-length thresholds): "
              "New, setters, WriteTo, ReadPacket of the written bytes, String/Dump, repeated WriteTo; ")


def half(run, fams, prog):
    """Quick-tier thinning: a seed-dependent half of the programs of the given families (all of them in the thorough tier)."""
    if run.tier == "thorough" or prog.get("fam") not in fams:
        return True
    meta = prog.get("meta") or {}
    if prog.get("fam") == "api" and (meta.get("start", "new") != "new" or meta.get("pre", "none") != "none" or meta.get("kind")):
        return True            # only the plain depth-2 histories are thinned, never the ones that start on a written / decoded packet
    return (zlib.crc32(json.dumps(prog["steps"][:6], sort_keys=True).encode()) + run.seed) % 2 == 0


def c01(run):
    return check(run, "C01", {"C01"}, [("build", TYPE_PARTS), ("reuse", ONE_PART), ("api", 2), ("apifull", 1)],
                 BUILD_RULE + "TLC replays the setters on the PacketAPI model and requires every accessor of the decoded packet "
                 "to equal the model and the second encoding to equal the first; the same round trip at the end of every setter history "
                 "of MC_API (all ordered pairs of calls from the constructor's packet; every call, thorough every pair, from a packet "
                 "that carries every field and was written or printed before)",
                 ["D1: domain of C01 as InC01Domain in spec/PacketAPI.tla"], keep=lambda pr: half(run, ("api",), pr))


def c02(run):
    return check(run, "C02", {"C02"}, [("build", TYPE_PARTS), ("reuse", ONE_PART), ("own", ONE_PART), ("apifull", 2 if run.tier == "thorough" else 1)],
                 histories=300 if run.tier == "quick" else 5000, rule=
                 BUILD_RULE + "the bytes handed to the writer are read by the strict reference decoder (MQTTWire!StrictDecode) "
                 "and ObsOfWire of the result must equal the PacketAPI model state; also caller-kept values (reuse family), packets "
                 "next to decodes (own family) and seeded random histories with writes between the calls",
                 assumptions=["D2: only packets in InC02Domain are judged", "absent property = zero value"], keep=lambda pr: half(run, ("build",), pr))


def c03(run):
    return check(run, "C03", {"C03"}, [("frames", TYPE_PARTS), ("own", ONE_PART)] + ([("huge", ONE_PART)] if run.tier == "thorough" else []),
                 "one program per abstract wire packet enumerated by TLC (family frames): 15 types x property subsets/orders/"
                 "explicit zeros x short forms x boundary string lengths; each frame is produced by the reference encoder, read by "
                 "ReadPacket, and the accessor values are compared by TLC with ObsOfWire(StrictDecode(frame))",
                 ["D3: an explicitly transmitted zero-valued property reads as zero",
                  "only frames that are FullyValid (structure + semantic rules of Appendix C) must be accepted"], std_readers=4)


def c04(run):
    return check(run, "C04", {"C04"}, [("mutants", TYPE_PARTS), ("frames", TYPE_PARTS), ("own", ONE_PART), ("render", ONE_PART)],
                 "mutants of every base packet (interior cuts, undefined identifiers, bad booleans, every prefix, five-byte "
                 "lengths), all valid frames, and bodies given directly to UnmarshalBinary of all 16 types; a Panic event or a "
                 "result that is not exactly (packet, nil) or (nil, error) is a violation",
                 ["D9: packets left behind by a failed UnmarshalBinary are values a program can hold"],
                 randoms=20000 if run.tier == "quick" else 150000, std_readers=10)


DECODE_STEPS_CFG = ("SPECIFICATION Spec\nINVARIANT WorkBound\nINVARIANT OffsetInData\nINVARIANT BudgetImplied\nPROPERTY ErrorIsSticky\n"
                    "PROPERTY Termination\nCHECK_DEADLOCK FALSE\nCONSTANTS MaxLen = %d Fixed = %d Loops = %d LeaveOnError = TRUE\n")


def c05(run):
    big = run.tier == "thorough"
    return check(run, "C05", {"C05"}, [("mutants", TYPE_PARTS), ("own", ONE_PART), ("many", ONE_PART), ("seqlong", ONE_PART)],
                 models=[("DecodeSteps", DECODE_STEPS_CFG % ((12, 6, 3) if big else (7, 4, 2)))], rule=
                 "the C04 inputs; a decode that exceeds the step budget 4*len+64 (hook), the time/memory watchdog, or returns "
                 "a packet with more list elements than the frame has bytes is a violation; DecodeSteps.tla model-checks that the "
                 "guarded reader with leave-on-error loops terminates within the bound for every frame length and outcome",
                 assumptions=["work bound MaxSteps(frame) = 4*Len(frame)+64 guarded reads", "watchdog 2 s / 1 GiB per program, confirmed by a re-run alone"],
                 randoms=20000 if run.tier == "quick" else 150000, std_readers=10)


def count_proof(run, module, what):
    """Apalache discharges the inductive invariant of an integer abstraction (all lengths, limits and chunkings)."""
    import subprocess
    obl = [("Init", "IndInv", 0), ("IndInv", "IndInv", 1), ("IndInv", "Safe", 0)]
    for init, inv, length in obl:
        pr = subprocess.run(["apalache-mc", "check", "--init=" + init, "--inv=" + inv, "--length=%d" % length,
                             "--out-dir=" + os.path.join(run.dir, "apalache-out"), os.path.join(run.specdir, module + ".tla")],
                            capture_output=True, text=True, timeout=1800, cwd=run.dir)
        if "EXITCODE: OK" not in pr.stdout:
            raise Infra("Apalache obligation %s => %s of %s failed:\n%s" % (init, inv, module, pr.stdout[-1500:]))
    return {"apalache_obligations": len(obl), "apalache_discharged": len(obl),
            "apalache_what": "%s: Init => IndInv, IndInv /\\ Next => IndInv', IndInv => Safe (%s)" % (module, what)}


def stream_count_proof(run):
    return count_proof(run, "StreamIOCount", "unbounded lengths and chunkings")


def c06(run):
    return check(run, "C06", {"C06"}, [("seq", ONE_PART)],
                 "all sequences of 1..2 (thorough 1..3) frames from the short-frame corpus (valid, must-reject, either, type 0) "
                 "followed by trailing bytes, read by successive ReadPacket calls on one counting reader; every Read request "
                 "must stay within what is known to belong to the current frame (StreamIO!KnownNeed); "
                 "MC_Stream model-checks the reader rules (15 k states, safety + termination)", [],
                 models=[("MC_Stream", MC_STREAM_CFG)], std_readers=2)


def c07(run):
    return check(run, "C07", {"C07"}, [("sched", TYPE_PARTS)], extra_cov=(stream_count_proof(run) if run.tier == "thorough" else None), rule=
                 "every corpus frame of at most 7 (thorough 10) bytes x every composition of its length into chunks x final "
                 "chunk with io.EOF or (0, io.EOF) after, plus (0,nil) reads at up to two positions; each Read is a StreamIO "
                 "step and the outcome must equal the outcome of the contiguous read; long frames (2- and 3-byte remaining length) "
                 "with chosen splits and zero-length reads; thorough: StreamIOCount inductive invariant by Apalache",
                 assumptions=["D5: same rejection = nil packet and non-nil error", "D6: request sizes free as long as they cannot over-read"],
                 models=[("MC_Stream", MC_STREAM_CFG)], std_readers=3)


def c08(run):
    return check(run, "C08", {"C08"}, [("fault", TYPE_PARTS)],
                 "every corpus frame x every cut offset k in [0, L] x {EOF, error E} x {with the last bytes, on the next call} x "
                 "fragmentations of the delivered prefix", ["D5: errors.Is(err, E) / errors.Is(err, io.EOF) only"],
                 level="fault_enumeration", models=[("MC_Stream", MC_STREAM_CFG)], std_readers=2, ekinds=3)


def c09(run):
    return check(run, "C09", {"C09"}, [("mutants", TYPE_PARTS)],
                 "TLC derives from each base packet every interior cut position of its field map (re-framed), every undefined "
                 "property identifier at two positions, every boolean property with values 2..255 and five-byte remaining "
                 "lengths; the specification proves Verdict = reject for each (invariant Theorems2) and the trace specification "
                 "requires ReadPacket to return an error",
                 ["a frame is must-reject only when the first failure of the strict walk is one of the classes (a)-(d)"],
                 keep=lambda p: p["meta"]["kind"] in ("cut", "undef", "bool", "rlfifth", "vbi5", "badsubid", "dupbad"), std_readers=10)


def c10(run):
    return check(run, "C10", {"C10"}, [("wfault", TYPE_PARTS), ("build", TYPE_PARTS), ("reuse", ONE_PART), ("apifull", 1),
                                       ("apidec", 1)],
                 "packets of the build family written to a writer that accepts everything, and small packets written to a "
                 "writer that accepts exactly k bytes then reports E for every k below the frame length; malformed but "
                 "constructible packets and Undefined; seeded random setter histories with WriteTo between the calls (a packet that grows "
                 "and shrinks between two writes); MC_Write model-checks the writer rules (WriteIO.tla: every way of offering a frame in one "
                 "or several Write calls x every writer that stops after K bytes; completed behaviours satisfy the predicate applied to "
                 "the recorded events)",
                 ["D7: writers obey io.Writer (an error whenever fewer bytes are accepted)"],
                 histories=400 if run.tier == "quick" else 5000, models=[("MC_Write", MC_WRITE_CFG)], rich_writers=4, ekinds=3,
                 keep=lambda pr: half(run, ("build",), pr),
                 extra_cov=(count_proof(run, "WriteIOCount", "every frame length, writer limit and splitting over Write calls")
                            if run.tier == "thorough" else None))


def c11(run):
    return check(run, "C11", {"C11"}, [("build", TYPE_PARTS), ("own", ONE_PART), ("apifull", 1), ("apidec", 1),
                                       ("conc", TYPE_PARTS)],
                 BUILD_RULE + "every WriteTo of an unchanged model state must give the bytes of the first one (8 repeats in a "
                 "row plus writes before and after String/Dump/WellFormed), and the accessor record must be unchanged by "
                 "every read-only operation; a third of the programs is executed again in two other worker processes (fresh hash seeds) "
                 "and the first encodings are compared; the concurrency configurations of C13 in which some goroutine writes the packet (driver built "
                 "with -race): every concurrent encoding must equal the sequential one", [], xproc=0.34, conc_apart=True,
                 keep=lambda pr: (pr.get("fam") != "conc" or "WriteTo" in json.dumps(pr["steps"][-2:])) and half(run, ("build",), pr))


def c12(run):
    depth = 3 if run.tier == "thorough" else 2
    return check(run, "C12", {"C12"}, [("api", depth), ("apinew", 2), ("apifull", depth - 1), ("apidec", depth - 1), ("reuse", ONE_PART)],
                 "TLC explores PacketAPI (spec/MC_API.tla) per packet type: all histories of %d calls over the complete setter "
                 "alphabet with zero/non-zero/maximal arguments and both truth values; invariants FlagsInStep, LastWriteWins, "
                 "FrameCondition hold in the model; every history is executed and after every call all accessors must equal "
                 "the model, then the frame is judged as in C02; plus seeded random histories of 30-60 (thorough 100-200) calls "
                 "over the same alphabet" % depth, ["D1 argument domain"],
                 histories=300 if run.tier == "quick" else 5000)


def c14(run):
    return check(run, "C14", {"C14"}, [("own", ONE_PART), ("reuse", ONE_PART)],
                 "pairs of frames decoded directly from a reused buffer / by ReadPacket / next to fresh packets, the input "
                 "buffer and returned slices overwritten; after every event every live packet not named by the event must "
                 "report the accessor values of the model; Endpoint.tla model-checks the composition (read-only operations leave the pool "
                 "unchanged in every interleaving of their call and return steps, a mutation changes the named packet only)", [],
                 models=[("Endpoint", ENDPOINT_CFG)])


def c16(run):
    return check(run, "C16", {"C16"}, [("first", TYPE_PARTS), ("frames", TYPE_PARTS)],
                 "all 256 first bytes x bodies that parse for the selected type, plus every valid frame: dynamic type = upper "
                 "nibble, PUBLISH flags, rewritten first byte", ["D8"], extra_cov={"exhaustive": True}, std_readers=4)


def c17(run):
    return check(run, "C17", {"C17"}, [("wf", ONE_PART), ("reuse", ONE_PART)],
                 "PUBLISH grid topic x alias x QoS 0..3 x packet id x other fields; SUBSCRIBE grid filters 0..3 x subscription "
                 "identifier around 268435455 x option bytes x empty filter; TopicFilter x all 256 option bytes; decoded "
                 "packets with QoS 3; WellFormed and the malformed! suffix of String against PublishWF/SubscribeWF/FilterWF", [])


def c18(run):
    return check(run, "C18", {"C18"}, [("cred", ONE_PART)],
                 "CONNECT shapes x credential lengths x pairs of contents (including contents equal to other fields and the "
                 "mask), built and decoded; Dump and String of the two packets of a pair must be identical", ["D11"])


def c19(run):
    return check(run, "C19", {"C19"}, [("render", ONE_PART), ("mutants", TYPE_PARTS), ("own", ONE_PART), ("wf", ONE_PART),
                                       ("frames", TYPE_PARTS)],
                 "String and Dump after every decode of the mutant corpus, on packets left by failed UnmarshalBinary, on zero "
                 "values of all 16 types, and for all 256 values of each rendered byte; seeded random damage to valid frames "
                 "(quick tier: a seed-dependent third of the mutant programs)", ["D9"],
                 keep=(lambda pr: pr.get("fam") != "mutants" or run.tier == "thorough" or (zlib.crc32(json.dumps(pr["steps"][0]).encode()) + run.seed) % 3 == 0),
                 randoms=10000 if run.tier == "quick" else 80000)


def c13(run):
    return check(run, "C13", {"C13"}, [("conc", TYPE_PARTS)],
                 "TLC enumerates the configurations: every unordered pair (thorough: triple) of read-only operations {WriteTo, "
                 "String, Dump, WellFormed, accessor sweep, ReadPacket on a private stream} x 15 types, on a packet carrying every "
                 "property (CONNECT: with a will message that is also used directly); the driver, built with -race, runs them in "
                 "4 (thorough 8) goroutines released by a barrier, 200 (thorough 2000) repetitions each; a race report or a "
                 "concurrent encoding that differs from the sequential one is a violation",
                 ["D10: goroutines start after the packets are built", "race freedom is observed by the Go race detector "
                  "(no false positives) for the executions that ran; TLA+ contributes the configurations and the expected bytes"],
                 level="exploration", drive_kw={"race": True, "workers": 4, "timeout_ms": 60000}, models=[("Endpoint", ENDPOINT_CFG)])


def vbi_sweep(run):
    """Thorough tier: the exhaustive Go sweep. Returns (extra programs, coverage keys)."""
    import subprocess
    binp = run.build_driver()
    bits = int(os.environ.get("VERIF_SWEEP_BITS", "28"))
    pr = subprocess.run([binp, "sweep", "-bits", str(bits)], capture_output=True, text=True, timeout=7200)
    if pr.returncode != 0:
        raise Infra("sweep failed: " + pr.stderr[-1000:])
    res = json.loads(pr.stdout)
    vlib.log("sweep: %d evaluations, %d disagreements" % (res["evaluations"], res["disagreements"]))
    return res["programs"], {"sweep_evaluations": res["evaluations"], "sweep_disagreements_resubmitted_to_tlc": len(res["programs"]),
                             "exhaustive": bits >= 28,
                             "sweep_rule": "all values 0..2^%d-1 through encoder and both decoders; all byte sequences of length "
                                           "<= 4; all four-continuation prefixes x fifth byte in {00,01,7f,80,ff}; compared with the "
                                           "Go transcription of Bytes!VBI4/VBIRead (validated by TLC on every VBI event of this run); "
                                           "each disagreement is replayed as a program and judged by TLC" % bits}


def vbi_lemma(run):
    """Apalache proves the closed-form lemma for all 2^28 values (about 2 minutes)."""
    import subprocess, time
    t0 = time.time()
    out = os.path.join(run.dir, "apalache-out")
    pr = subprocess.run(["apalache-mc", "check", "--init=Init", "--inv=Lemma", "--length=0", "--out-dir=" + out,
                         os.path.join(run.specdir, "VBILemma.tla")], capture_output=True, text=True, timeout=3600, cwd=run.dir)
    if "EXITCODE: OK" not in pr.stdout:
        raise Infra("Apalache did not prove VBILemma:\n" + pr.stdout[-1500:])
    return {"apalache_lemma": "VBILemma!Lemma holds for all v in 0..268435455 (apalache-mc check --length=0)",
            "apalache_wall_s": round(time.time() - t0, 1)}


def c15(run):
    extra, cov = ([], {})
    if run.tier == "thorough":
        extra, cov = vbi_sweep(run)
        cov.update(vbi_lemma(run))
    return check(run, "C15", {"C15"}, [("vbi", ONE_PART), ("build", [[3], [10]])], extra_progs=extra, extra_cov=cov, rule=(
                 "values within 300 of 0, 128, 16384, 2097152, 268435455 and all 2^k, 2^k +- 1 through the encoder and both "
                 "decoders behind hook H1; all byte sequences of length <= 4 (thorough 5) over {00,01,7f,80,81,ff}; five-byte "
                 "continuations; the subscription identifier and remaining length through the public API; TLC compares every "
                 "result with Bytes!VBI / VBIRead"),
                 assumptions=["non-minimal forms are neither required nor forbidden: only agreement of the two decoders is demanded there"])


def replay(run, prop, path):
    data = json.load(open(path))
    pr = data["program"]
    if pr is None:
        raise Infra("replay file holds no program")
    shards = run.drive([pr], "replay", workers=1)
    notes, events = run.validate(shards, "replay")
    for n in notes:
        print(json.dumps(n))
    bad = [n for n in notes if n["prop"] == prop]
    if bad:
        print("VIOLATION property=%s replay=%s" % (prop, path))
        return 1
    return 0


PLANS = {"C01": c01, "C02": c02, "C03": c03, "C04": c04, "C05": c05, "C06": c06, "C07": c07, "C08": c08, "C09": c09,
         "C10": c10, "C11": c11, "C12": c12, "C13": c13, "C14": c14, "C15": c15, "C16": c16, "C17": c17, "C18": c18, "C19": c19}
