"""Orchestrator library for /verif/bin/check.

Runs TLC (generators and trace validation), builds and runs the Go driver from
the repository's current working tree, collects the notes the trace
specification produced, applies the known-findings file, writes evidence and
replay files.  It contains no oracle: every verdict is a note written by TLC
from spec/Trace.tla.
"""
import json, os, re, shutil, subprocess, sys, tempfile, time, random, hashlib
from concurrent.futures import ThreadPoolExecutor

VERIF = os.path.dirname(os.path.dirname(os.path.abspath(__file__)))
SPEC = os.path.join(VERIF, "spec")
HARNESS = os.path.join(VERIF, "harness")
REPO = os.environ.get("VERIF_REPO", "/repo")
TLA_CP = "/opt/veriftools/tla/tla2tools.jar:/opt/veriftools/tla/CommunityModules-deps.jar"
NCPU = min(16, os.cpu_count() or 4)

GOENV = dict(os.environ, GOFLAGS="-mod=mod", GOPROXY="off", GOSUMDB="off", GOTOOLCHAIN="local")


class Infra(Exception):
    """Infrastructure trouble: exit code 2, never a violation."""


def log(*a):
    print(*a, file=sys.stderr, flush=True)


class Run:
    """One check run: scratch directory, counters, evidence."""

    def __init__(self, prop, tier, seed):
        self.prop, self.tier, self.seed = prop, tier, seed
        self.t0 = time.time()
        self.dir = tempfile.mkdtemp(prefix="verif-%s-" % prop, dir=os.environ.get("VERIF_SCRATCH", "/var/tmp"))
        self.specdir = os.path.join(self.dir, "spec")
        shutil.copytree(SPEC, self.specdir)
        self.tlc_states = 0
        self.tlc_transitions = 0
        self.gen_cases = 0
        self.tlc_runs = []
        self.note_counts = {}
        self.cover = {}
        self.driver = None
        self.rng = random.Random(seed)

    def cleanup(self):
        shutil.rmtree(self.dir, ignore_errors=True)

    # ------------------------------------------------------------------ TLC
    def tlc(self, module, cfg_text, name, env=None, workers=1, xmx="3g", timeout=3600, xss=None):
        """Runs TLC on spec/<module>.tla with the given cfg; returns stdout."""
        cfg = os.path.join(self.specdir, name + ".cfg")
        with open(cfg, "w") as f:
            f.write(cfg_text)
        meta = os.path.join(self.dir, "meta-" + name)
        cmd = ["java", "-XX:+UseParallelGC", "-XX:ParallelGCThreads=2", "-Xmx" + xmx]
        if xss:
            cmd.append("-Xss" + xss)
        cmd += ["-cp", TLA_CP, "tlc2.TLC", "-workers", str(workers), "-metadir", meta,
                "-config", cfg, os.path.join(self.specdir, module + ".tla")]
        e = dict(os.environ)
        if env:
            e.update(env)
        out_path = os.path.join(self.dir, name + ".out")
        with open(out_path, "w") as out:
            try:
                p = subprocess.run(cmd, stdout=out, stderr=subprocess.STDOUT, env=e, cwd=self.specdir, timeout=timeout)
            except subprocess.TimeoutExpired:
                raise Infra("TLC timed out: %s" % name)
        shutil.rmtree(meta, ignore_errors=True)
        text = open(out_path, errors="replace").read()
        m = re.search(r"(\d+) states generated, (\d+) distinct states found", text)
        if m:
            self.tlc_transitions += int(m.group(1))
            self.tlc_states += int(m.group(2))
        self.tlc_runs.append({"name": name, "rc": p.returncode,
                              "generated": int(m.group(1)) if m else 0, "distinct": int(m.group(2)) if m else 0})
        return p.returncode, text, out_path

    def generate(self, family, types_parts, tier=None, extra_consts=""):
        """Runs Gen.tla for a family, one TLC process per part of the type partition.
        Returns the list of programs; a violated theorem of the specification is an Infra error
        (the specification is wrong, not the library)."""
        tier = tier or self.tier
        progs = []

        def one(part):
            name = "gen-%s-%s" % (family, "_".join(map(str, part)))
            cfg = ("INIT Init2\nNEXT Next\nINVARIANT Theorems2\nINVARIANT Emit2\n"
                   "CONSTANTS FAMILY = \"%s\" TYPES = {%s} TIER = \"%s\" SEED = %d %s\n"
                   % (family, ",".join(map(str, part)), tier, self.seed % 1000003, extra_consts))
            rc, text, path = self.tlc("Gen2", cfg, name, xmx="4g", xss="512m")
            if rc != 0 or "No error has been found" not in text:
                raise Infra("generator %s failed (rc %s); see %s\n%s" % (name, rc, path, tail(text)))
            out = parse_progs(text)
            os.remove(path)
            return out

        t0 = time.time()
        with ThreadPoolExecutor(max_workers=NCPU) as ex:
            for part, res in zip(types_parts, ex.map(one, types_parts)):
                progs += res
        self.gen_cases += len(progs)
        log("generated %d programs (%s) in %.1fs" % (len(progs), family, time.time() - t0))
        return progs

    def model_programs(self, module, cfgs, tag, workers=2):
        """Runs a model-checking module (a real state machine, e.g. MC_API) once per cfg text;
        returns the programs printed by its Emit invariant."""
        progs = []

        def one(item):
            name, cfg = item
            rc, text, path = self.tlc(module, cfg, name, workers=workers, xmx="4g", xss="64m")
            if rc != 0 or "No error has been found" not in text:
                raise Infra("model %s failed (rc %s); see %s\n%s" % (name, rc, path, tail(text)))
            out = parse_progs(text)
            os.remove(path)
            return out

        t0 = time.time()
        with ThreadPoolExecutor(max_workers=max(1, NCPU // workers)) as ex:
            for res in ex.map(one, cfgs):
                progs += res
        self.gen_cases += len(progs)
        log("model %s: %d programs in %.1fs" % (tag, len(progs), time.time() - t0))
        return progs

    # --------------------------------------------------------------- driver
    def build_driver(self, race=False):
        bdir = os.path.join(self.dir, "hb-race" if race else "hb")
        if os.path.exists(os.path.join(bdir, "mqdrive.bin")):
            return os.path.join(bdir, "mqdrive.bin")
        os.makedirs(bdir, exist_ok=True)
        shutil.copytree(os.path.join(HARNESS, "mqdrive"), os.path.join(bdir, "mqdrive"))
        tmpl = open(os.path.join(HARNESS, "go.mod.tmpl")).read().replace("@REPO@", REPO)
        open(os.path.join(bdir, "go.mod"), "w").write(tmpl)
        shutil.copy(os.path.join(REPO, "go.sum"), os.path.join(bdir, "go.sum"))
        env = dict(GOENV, GOCACHE=os.environ.get("GOCACHE", os.path.join(os.path.expanduser("~"), ".cache/go-build")))
        cmd = ["go", "build", "-tags", "verif"] + (["-race"] if race else []) + ["-o", "mqdrive.bin", "./mqdrive"]
        p = subprocess.run(cmd, cwd=bdir, env=env, capture_output=True, text=True)
        if p.returncode != 0:
            raise Infra("building the driver against %s failed:\n%s" % (REPO, p.stderr[-3000:]))
        return os.path.join(bdir, "mqdrive.bin")

    def drive(self, progs, tag, workers=NCPU, timeout_ms=2000, mem_mib=1024, race=False, procs_all=False):
        """Executes programs on the real library; returns the list of trace shard paths."""
        binp = self.build_driver(race)
        inp = os.path.join(self.dir, tag + ".progs.ndjson")
        order = list(progs)
        random.Random(self.seed).shuffle(order)          # balance the shards; programs are independent
        with open(inp, "w") as f:
            for pr in order:
                f.write(json.dumps(pr, separators=(",", ":")) + "\n")
        outp = os.path.join(self.dir, tag + ".trace")
        t0 = time.time()
        env = dict(os.environ)
        if race or procs_all:
            env["MQDRIVE_PROCS"] = "all"
        p = subprocess.run([binp, "run", "-in", inp, "-out", outp, "-workers", str(workers),
                            "-timeout", str(timeout_ms), "-mem", str(mem_mib)], capture_output=True, text=True, env=env)
        if p.returncode != 0:
            raise Infra("driver failed (rc %d): %s" % (p.returncode, p.stderr[-2000:]))
        shards = sorted([os.path.join(self.dir, x) for x in os.listdir(self.dir)
                         if x.startswith(tag + ".trace.") and not x.endswith(".confirm") and ".in." not in x])
        log("drove %d programs in %.1fs: %s" % (len(progs), time.time() - t0, p.stdout.strip()))
        return shards

    # ----------------------------------------------------- trace validation
    def split_shards(self, shards, limit=40e6):
        """Cuts trace shards above `limit` bytes into pieces at program boundaries (every program starts with a Reset event and
        is validated on its own state), so that a validator never has to hold more than one piece."""
        out = []
        for sh in shards:
            if os.path.getsize(sh) <= limit:
                out.append(sh)
                continue
            part, size, f = 0, 0, None
            with open(sh) as src:
                for line in src:
                    if f is None or (size > limit and line.startswith('{"ev":"Reset"')):
                        if f:
                            f.close()
                        path = "%s.p%d" % (sh, part)
                        out.append(path)
                        f = open(path, "w")
                        part, size = part + 1, 0
                    f.write(line)
                    size += len(line)
            if f:
                f.close()
            os.remove(sh)
        return out

    def validate(self, shards, tag):
        """TLC checks every trace shard against spec/Trace.tla; returns (notes, events)."""
        notes, events = [], 0
        shards = self.split_shards(shards)

        def one(sh):
            name = "val-" + os.path.basename(sh).replace(".trace", "").replace(".", "-")
            notes_path = sh + ".notes"
            cfg = "SPECIFICATION Spec\nPOSTCONDITION TraceDone\nCHECK_DEADLOCK FALSE\n"
            rc, text, path = self.tlc("Trace", cfg, name, env={"TRACE": sh, "NOTES": notes_path}, xmx=xmx, xss="256m")
            if (rc < 0 or "OutOfMemoryError" in text) and not os.path.exists(notes_path):
                # killed (memory pressure from other jobs on the machine) or out of heap: once more, alone, with the large heap
                with retry_lock:
                    rc, text, path = self.tlc("Trace", cfg, name + "-retry", env={"TRACE": sh, "NOTES": notes_path}, xmx="6000m", xss="256m")
            if rc != 0 or not os.path.exists(notes_path):
                raise Infra("trace validation %s failed (rc %s); see %s\n%s" % (name, rc, path, tail(text)))
            rows = [json.loads(x) for x in open(notes_path) if x.strip()]
            summ = rows[0]
            if summ["reached"] != summ["lines"]:
                raise Infra("trace %s not consumed completely: %s" % (sh, summ))
            os.remove(path)
            return rows[1:], summ

        t0 = time.time()
        # heap per validator by the largest shard; as many validators at once as the memory that is free right now allows
        big = max([os.path.getsize(sh) for sh in shards] or [0])
        heap_mb = 6000 if self.tier == "thorough" else int(min(6000, max(2500, 80 * big / 1e6)))   # (a heap that is too tight makes TLC collect garbage all the time)
        xmx = "%dm" % heap_mb
        par = max(2, min(NCPU, int(mem_available_mb() * 0.75 / (heap_mb + 300))))
        log("validating %d shards (largest %.1f MB), %d at a time, heap %d MB" % (len(shards), big / 1e6, par, heap_mb))
        with ThreadPoolExecutor(max_workers=par) as ex:
            for (rows, summ) in ex.map(one, shards):
                notes += rows
                events += summ["lines"]
                for pk, cnt in summ["counts"].items():
                    self.note_counts[pk] = self.note_counts.get(pk, 0) + cnt
                for pk, cnt in summ.get("cover", {}).items():
                    self.cover[pk] = self.cover.get(pk, 0) + cnt
        log("validated %d events in %.1fs, %d notes" % (events, time.time() - t0, len(notes)))
        return notes, events


import threading
retry_lock = threading.Lock()


def mem_available_mb():
    try:
        for line in open("/proc/meminfo"):
            if line.startswith("MemAvailable:"):
                return int(line.split()[1]) // 1024
    except OSError:
        pass
    return 32000


def tail(text, n=25):
    lines = [x for x in text.splitlines() if x.strip() and not x.startswith(("Parsing", "Semantic", "Linting"))]
    return "\n".join(lines[-n:])


PROG_RE = re.compile(r'<<\s*"PROG",\s*"((?:[^"\\]|\\.)*)"\s*>>', re.S)


def parse_progs(text):
    out = []
    for m in PROG_RE.finditer(text):
        inner = json.loads('"' + m.group(1) + '"')
        out.append(json.loads(inner))
    return out


def assign_ids(progs, prefix):
    for i, p in enumerate(progs):
        p["id"] = "%s%d" % (prefix, i)
    return progs


# ---------------------------------------------------------------- findings
def load_known():
    path = os.path.join(VERIF, "known_findings.json")
    if not os.path.exists(path):
        return []
    return json.load(open(path)).get("findings", [])


def note_signature(n):
    """A stable description of what failed, used to match the known-findings file."""
    ex = n.get("extra", {}) or {}
    sig = {"prop": n["prop"], "why": n["why"]}
    for k in ("site", "op", "m", "cls", "list"):
        if k in ex:
            sig[k] = ex[k]
    if "keys" in ex:
        sig["keys"] = sorted(ex["keys"])
    if isinstance(ex.get("frame"), list):
        sig["type"] = ex["frame"][0] >> 4 if ex["frame"] else -1
        sig["frame"] = ex["frame"]
    for k in ("list", "first", "wf", "wfErr", "hs", "sites"):
        if k in ex:
            sig[k] = ex[k]
    return sig


def matches(sig, finding):
    m = finding.get("match", {})
    for k, v in m.items():
        if k == "keys_subset":
            if not set(sig.get("keys", [])) <= set(v) or not sig.get("keys"):
                return False
        elif sig.get(k) != v:
            return False
    return True


def finish(run, prop, claims, notes, progs_by_id, coverage, level, assumptions, samples, require=None):
    """Classifies notes, prints the verdict lines, writes evidence and replays; returns the exit code."""
    if os.environ.get("VERIF_DUMP_NOTES"):
        with open(os.environ["VERIF_DUMP_NOTES"], "w") as f:
            for n in notes:
                f.write(json.dumps(n) + "\n")
    known = [f for f in load_known() if f.get("status") == "open" and f.get("property") == prop]
    mine = [n for n in notes if n["prop"] in claims]
    infra = [n for n in notes if n["prop"] in ("HARNESS", "SPEC")]
    violations, knowns = [], {}
    for n in mine:
        sig = note_signature(n)
        hit = next((f for f in known if matches(sig, f)), None)
        if hit:
            knowns.setdefault(hit["id"], [hit, 0])[1] += 1
        else:
            violations.append(n)
    for fid, (f, cnt) in knowns.items():
        print("KNOWN-FINDING: property=%s %s (%d observations this run)" % (prop, f["what"], cnt))
    rc = 0
    replay_dir = os.environ.get("VERIF_REPLAY_DIR", os.path.join(VERIF, "replays"))
    os.makedirs(replay_dir, exist_ok=True)
    seen = set()
    for n in violations:
        key = json.dumps(note_signature(n), sort_keys=True)
        if key in seen:
            continue
        seen.add(key)
        if len(seen) > 12:
            break
        h = hashlib.sha1(key.encode()).hexdigest()[:10]
        path = os.path.join(replay_dir, "%s-%s.json" % (prop, h))
        json.dump({"property": prop, "note": n, "program": progs_by_id.get(n.get("prog"))}, open(path, "w"), indent=1)
        print("VIOLATION property=%s replay=%s" % (prop, path))
        print("  %s: %s %s" % (n.get("prog"), n["why"], json.dumps(n.get("extra"))[:300]))
        rc = 1
    vacuous = [(k, need, run.cover.get(k, 0)) for k, need in (require or {}).items() if run.cover.get(k, 0) < need]
    if vacuous and rc == 0:
        for k, need, got in vacuous:
            log("VACUOUS: %s exercised %d times, at least %d wanted" % (k, got, need))
        rc = 2
    if infra:
        for n in infra[:5]:
            log("infrastructure note:", json.dumps(n)[:400])
        if rc == 0:
            rc = 2
    cov = dict(coverage)
    cov.setdefault("states", run.tlc_states)
    cov.setdefault("transitions", run.tlc_transitions)
    cov["samples"] = samples[:6]
    cov["tlc_runs"] = len(run.tlc_runs)
    cov["exercised"] = {k: c for k, c in sorted(run.cover.items()) if k != "none"}
    cov["violating_notes"] = len(violations)
    cov["notes_by_property_all_checked_invariants"] = {k: c for k, c in run.note_counts.items() if k != "none"}
    cov["known_finding_notes"] = sum(c for _, c in knowns.values())
    ev = {"property_id": prop, "tier": run.tier, "seed": run.seed, "level": level, "coverage": cov,
          "assumptions": assumptions, "wall_s": round(time.time() - run.t0, 1), "violations": len(violations)}
    evdir = os.environ.get("VERIF_EVIDENCE_DIR", os.path.join(VERIF, "evidence"))
    os.makedirs(evdir, exist_ok=True)
    json.dump(ev, open(os.path.join(evdir, prop + ".json"), "w"), indent=1)
    return rc
