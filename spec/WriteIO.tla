------------------------------ MODULE WriteIO ------------------------------
(***************************************************************************)
(* WriteTo against an io.Writer, as a state machine (C10).                 *)
(*                                                                         *)
(* One WriteTo call is the activation record wt.  The implementation       *)
(* offers the bytes of one frame to the writer in one Write call or in     *)
(* several (WT_Write); the writer answers within the io.Writer contract    *)
(* (W_Return): it accepts k <= len(p) bytes and must report an error       *)
(* whenever k < len(p).  After an error the implementation may not write   *)
(* again and owes (accepted bytes, that error); after the whole frame was  *)
(* accepted it owes (frame length, nil).  A packet that cannot be          *)
(* serialised (Undefined) owes an error and no Write call at all.          *)
(*                                                                         *)
(* The writer's behaviour is data: wplan = [k |-> K]: it accepts K bytes   *)
(* in total; the call that would pass the K-th byte is cut short with      *)
(* error E, and so is every later call (K >= Len(frame): accepts all).     *)
(*                                                                         *)
(* The history variable calls logs <<len, k, e>> per Write, exactly what   *)
(* the scripted writer of the Go driver logs; the theorem OutcomeMatches   *)
(* (checked by TLC in MC_Write) says that every completed behaviour of     *)
(* this machine satisfies WriteOutcomeOK, the predicate the trace          *)
(* specification applies to the recorded WriteTo events.                   *)
(***************************************************************************)
EXTENDS WriteRules

VARIABLES frame,   \* the bytes WriteTo intends to hand over (<<>> with serialisable = FALSE: Undefined)
          serialisable,
          wplan,   \* [k]
          wt,      \* [st, off, acc, req, err, n, rerr]: st in idle / run / wait / done
          calls    \* history: <<[len, k, e]>>

wvars == <<frame, serialisable, wplan, wt, calls>>

WIdle == [st |-> "idle", off |-> 0, acc |-> 0, req |-> 0, err |-> "nil", n |-> 0, rerr |-> "nil"]

Offered == SubSeq(frame, 1, wt.off)

WT_Call ==
  /\ wt.st = "idle"
  /\ wt' = [wt EXCEPT !.st = "run"]
  /\ UNCHANGED <<frame, serialisable, wplan, calls>>

(* the implementation offers the next m unwritten bytes of the frame *)
WT_WriteGuard(m) == /\ wt.st = "run" /\ serialisable /\ wt.err = "nil"
                    /\ m >= 1 /\ m <= Len(frame) - wt.off
WT_Write(m) ==
  /\ WT_WriteGuard(m)
  /\ wt' = [wt EXCEPT !.st = "wait", !.req = m]
  /\ UNCHANGED <<frame, serialisable, wplan, calls>>

(* the io.Writer contract *)
W_ReturnGuard(k, e) ==
  /\ wt.st = "wait"
  /\ k >= 0 /\ k <= wt.req
  /\ e \in {"nil", "E"}
  /\ (k < wt.req => e = "E")
  /\ LET room == wplan.k - wt.acc IN               \* bytes the writer will still take
     IF room >= wt.req THEN k = wt.req /\ e = "nil"
     ELSE k = (IF room > 0 THEN room ELSE 0) /\ e = "E"
W_Return(k, e) ==
  /\ W_ReturnGuard(k, e)
  /\ wt' = [wt EXCEPT !.st = "run", !.off = @ + wt.req, !.acc = @ + k, !.req = 0, !.err = e]
  /\ calls' = Append(calls, [len |-> wt.req, k |-> k, e |-> e])
  /\ UNCHANGED <<frame, serialisable, wplan>>

(* what WriteTo may return *)
WT_MayReturn(n, err) ==
  IF ~serialisable THEN err # "nil" /\ n = 0 /\ wt.off = 0
  ELSE \/ wt.err = "nil" /\ wt.off = Len(frame) /\ n = Len(frame) /\ err = "nil"
       \/ wt.err # "nil" /\ err = wt.err /\ n = wt.acc
WT_Return(n, err) ==
  /\ wt.st = "run"
  /\ WT_MayReturn(n, err)
  /\ wt' = [wt EXCEPT !.st = "done", !.n = n, !.rerr = err]
  /\ UNCHANGED <<frame, serialisable, wplan, calls>>

(***************************************************************************)
(* Properties of the design (checked in MC_Write)                          *)
(***************************************************************************)
WDone == wt.st = "done"
(* exactly the bytes of the frame, in order, nothing else, nothing twice *)
RECURSIVE SumLen(_)
SumLen(j) == IF j = 0 THEN 0 ELSE calls[j].len + SumLen(j - 1)
OfferedIsPrefix == wt.off <= Len(frame) /\ (wt.st # "wait" => SumLen(Len(calls)) = wt.off)
AcceptedWithinOffered == wt.acc <= wt.off
NoWriteAfterError == \A i \in 1..Len(calls) : calls[i].e # "nil" => i = Len(calls)
TruthfulCount == WDone /\ serialisable => IF wt.rerr = "nil" THEN wt.n = Len(frame) /\ wt.acc = Len(frame)
                                          ELSE wt.n = wt.acc /\ wt.n < Len(frame)
UndefinedWritesNothing == ~serialisable => calls = <<>>
(* the predicate used on recorded events holds of every completed behaviour *)
OutcomeMatches == WDone => WriteOutcomeOK(IF serialisable THEN 1 ELSE 0, Offered, calls, wt.n, wt.rerr, -1)
=============================================================================
