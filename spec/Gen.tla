-------------------------------- MODULE Gen --------------------------------
(***************************************************************************)
(* Generators: TLC enumerates the bounded case domains of the codec        *)
(* families, checks the theorems of the specification on every case        *)
(* (invariant Theorems) and prints one program per case (invariant Emit)   *)
(* for the Go driver to execute against the real library.                  *)
(*                                                                         *)
(* Each case is one initial state; partitioned by packet type (TYPES) so   *)
(* that several TLC processes share the work.                              *)
(*                                                                         *)
(*   FAMILY  "frames"   valid frames by the reference encoder (C03, C16)   *)
(*           "mutants"  frames that must be rejected (C09) and prefixes /  *)
(*                      length-field mutations (C04, C05)                  *)
(*           "build"    packets built through the API, written and read    *)
(*                      back (C01, C02, C10, C11)                          *)
(*   TIER    "quick" | "thorough"                                          *)
(***************************************************************************)
EXTENDS PacketAPI, Json, SequencesExt

CONSTANTS FAMILY, TYPES, TIER, SEED

VARIABLE c

Thorough == TIER = "thorough"

(***************************************************************************)
(*                         sample values                                   *)
(***************************************************************************)
Txt(n) == [i \in 1..n |-> 97 + (i % 26)]                  \* printable text of length n
Bin(n) == [i \in 1..n |-> (i * 37) % 256]
Utf8Key == <<102, 195, 164, 114, 103, 195, 182>>          \* "färgö": well-formed two-byte UTF-8 sequences
Utf8Topic == <<97, 47, 239, 191, 189, 47, 240, 159, 152, 128>>   \* "a/" U+FFFD "/" U+1F600: three- and four-byte sequences
PropLikePayload == <<38, 0, 1, 98, 0, 1, 98>>              \* a payload that reads like one more user property
(* strings MQTT gives a meaning to: shared subscriptions, system topics, wildcards, separators *)
SpecialTexts == { <<36, 115, 104, 97, 114, 101, 47, 103, 47, 116>>,      \* $share/g/t
                  <<36, 115, 104, 97, 114, 101, 47, 103>>,               \* $share/g
                  <<36, 115, 104, 97, 114, 101, 47>>,                    \* $share/
                  <<36, 83, 89, 83, 47, 120>>,                           \* $SYS/x
                  <<35>>, <<43>>, <<97, 47, 35>>, <<43, 47, 43>>, <<47>>, <<47, 47>>, <<97, 47, 47, 98>>, <<36>>, Utf8Topic }                 \* arbitrary bytes of length n

SampleVals(id) ==
  LET kd == PropKind(id) IN
  IF kd = "bool" THEN {1}
  ELSE IF kd = "u8" THEN {1}
  ELSE IF kd = "u16" THEN IF Thorough THEN {1, 258, 65535} ELSE {258}
  ELSE IF kd = "u32" THEN IF Thorough THEN {<<0, 1>>, <<258, 772>>, <<65535, 65535>>} ELSE {<<258, 772>>}
  ELSE IF kd = "vbi" THEN {200, 1, 127, 128, 16383, 16384, 2097151, 2097152, MaxVBI}    \* both sides of every width boundary
  ELSE IF kd = "str" THEN {Txt(3)}
  ELSE IF kd = "bin" THEN {<<0, 255, 128>>}
  ELSE {<<Txt(1), Txt(2)>>}
SampleVal(id) == IF PropKind(id) = "vbi" THEN 200 ELSE CHOOSE x \in SampleVals(id) : TRUE
ZeroWire(id) ==
  LET kd == PropKind(id) IN
  IF kd \in {"bool", "u8", "u16", "vbi"} THEN 0 ELSE IF kd = "u32" THEN <<0, 0>> ELSE <<>>

PV(id, val) == <<id, val>>       \* a tuple, so that comparing two properties looks at the identifier first
Asc(S) == LET s == SetToSortSeq(S, LAMBDA a, b : a < b) IN [i \in 1..Len(s) |-> PV(s[i], SampleVal(s[i]))]
Perms(S) == LET n == Cardinality(S) IN
            {f \in [1..n -> S] : \A i, j \in 1..n : i # j => f[i] # f[j]}

(* about n elements of S, a different residue class for every SEED *)
Sample(S, n) == LET s == SetToSeq(S)  m == Len(s)  stride == IF m \div n < 1 THEN 1 ELSE m \div n IN
                {s[i] : i \in {j \in 1..m : j % stride = SEED % stride}}

(* property sections explored for context ctx *)
PropSeqs(ctx) ==
  LET A == Allowed(ctx)  n == Cardinality(A)
      small == {S \in SUBSET A : Cardinality(S) <= (IF Thorough THEN 3 ELSE 2)}
      large == {S \in SUBSET A : Cardinality(S) >= n - 1}
      asc == {Asc(S) : S \in small \cup large}
      rev == {Reverse(Asc(A))}
      rot == IF Thorough THEN {LET a == Asc(A) IN SubSeq(a, r + 1, n) \o SubSeq(a, 1, r) : r \in 1..(n - 1)} ELSE {}
      perm == {[i \in 1..Len(f) |-> PV(f[i], SampleVal(f[i]))] :
                 f \in UNION {Perms(S) : S \in {S \in small : Cardinality(S) >= 2}}}
      vals == UNION {{<<PV(id, x)>> : x \in SampleVals(id)} : id \in A}
      zeros == {<<PV(id, ZeroWire(id))>> : id \in {x \in A \ (ZeroForbidden \cup {8, 22}) : PropKind(x) # "pair"}}
      ups == {<<PV(38, <<Txt(1), Txt(2)>>), PV(38, <<Txt(2), <<>>>>), PV(38, <<Txt(1), Txt(2)>>)>>,
              <<PV(38, <<Utf8Key, Txt(1)>>)>>, <<PV(38, <<Utf8Key, Utf8Key>>), PV(38, <<Txt(1), Txt(1)>>)>>}
             \cup (IF n > 1 THEN {LET o == CHOOSE x \in A : x # 38 IN
                                  <<PV(38, <<Txt(1), Txt(1)>>), PV(o, SampleVal(o)), PV(38, <<Txt(2), Txt(2)>>)>>}
                   ELSE {})
      subs == IF ctx = 3 THEN {<<PV(11, 1), PV(38, <<Txt(1), Txt(1)>>), PV(11, MaxVBI), PV(11, 1)>>} ELSE {}
      \* property length 128 (80 01), 129 and a 3-byte one, alone and with the narrowest property of the context before / behind
      narrow == IF A \cap BoolIds # {} THEN PV(CHOOSE x \in A \cap BoolIds : TRUE, 1)
                ELSE IF 11 \in A THEN PV(11, 5) ELSE PV(38, <<Txt(1), <<>>>>)
      big == UNION {{<<PV(38, <<Txt(2), Txt(m)>>)>>, <<PV(38, <<Txt(2), Txt(m)>>), narrow>>, <<narrow, PV(38, <<Txt(2), Txt(m)>>)>>}
                    \cup (IF 11 \in A THEN {<<PV(38, <<Txt(2), Txt(m)>>), PV(11, 5)>>} ELSE {}) :
                      m \in {121, 122, 16380}}
      all == asc \cup rev \cup rot \cup perm \cup vals \cup zeros \cup ups \cup subs \cup big
  IN IF A = {} THEN {<<>>} ELSE {s \in all : HasProp(s, 22) => HasProp(s, 21)}

FewPropSeqs(ctx) == {<<>>} \cup {Asc(Allowed(ctx))}

(***************************************************************************)
(*                     abstract wire packets per type                      *)
(***************************************************************************)
ConnectFlagsOf(cs, w, wq, wr, u, pw) ==
  (IF cs THEN 2 ELSE 0) + (IF w THEN 4 + 8 * wq + (IF wr THEN 32 ELSE 0) ELSE 0)
  + (IF pw THEN 64 ELSE 0) + (IF u THEN 128 ELSE 0)

WillSel == [w : BOOLEAN, wq : 0..2, wr : BOOLEAN]
ConnectPkts(css, wsel, us, pws, kas, pss, wss, cids, wpls) ==
  { [t |-> 1, fl |-> 0,
     v |-> [ProtocolName |-> MQTTName, ProtocolVersion |-> 5,
            ConnectFlags |-> ConnectFlagsOf(x.cs, x.w.w, x.w.wq, x.w.wr, x.u, x.pw),
            KeepAlive |-> x.ka, Props |-> x.ps, ClientID |-> x.cid]
           @@ (IF x.w.w THEN [WillProps |-> x.ws, WillTopic |-> Txt(4), WillPayload |-> x.wpl] ELSE EmptyFn)
           @@ (IF x.u THEN [Username |-> Txt(5)] ELSE EmptyFn)
           @@ (IF x.pw THEN [Password |-> <<1, 0, 255>>] ELSE EmptyFn)] :
    x \in [cs : css, w : wsel, u : us, pw : pws, ka : kas, ps : pss, ws : wss, cid : cids, wpl : wpls] }

NoWill == [w |-> FALSE, wq |-> 0, wr |-> FALSE]
Connects ==
  LET wsel == {NoWill} \cup {x \in WillSel : x.w}
      flags == ConnectPkts(BOOLEAN, wsel, BOOLEAN, BOOLEAN, {300}, FewPropSeqs(1), FewPropSeqs(WILLCTX), {Txt(3)}, {Bin(3)})
      plain == ConnectPkts(BOOLEAN, {NoWill}, {FALSE}, {FALSE}, {0, 300}, {<<>>}, {<<>>}, {<<>>, Txt(3)}, {<<>>})
      props == ConnectPkts({TRUE}, {NoWill}, {FALSE}, {FALSE}, {300}, PropSeqs(1), {<<>>}, {Txt(3)}, {<<>>})
      wills == ConnectPkts({FALSE}, {[w |-> TRUE, wq |-> 1, wr |-> TRUE], [w |-> TRUE, wq |-> 2, wr |-> FALSE]},
                           {FALSE, TRUE}, {FALSE}, {0}, {<<>>}, PropSeqs(WILLCTX), {Txt(3)}, {<<>>, Bin(3)})
      \* user name / password flag set with a zero-length field (a frame the library's own writer never produces)
      emptycreds == {[q EXCEPT !.v = [x \in DOMAIN q.v |-> IF x \in {"Username", "Password"} /\ (j = 3 \/ (j = 1) = (x = "Username")) THEN <<>> ELSE q.v[x]]] :
                       q \in {r \in flags : "Username" \in DOMAIN r.v /\ "Password" \in DOMAIN r.v /\ r.v["ConnectFlags"] \div 4 % 2 = 0}, j \in 1..3}
  IN flags \cup plain \cup props \cup wills \cup emptycreds

ConnAcks == { [t |-> 2, fl |-> 0, v |-> [AckFlags |-> x.a, ReasonCode |-> x.r, Props |-> x.ps]] :
              x \in {y \in [a : {0, 1}, r : {0, 128, 135}, ps : PropSeqs(2)] : y.r = 0 \/ y.a = 0} }

Publishes ==
  { [t |-> 3, fl |-> x.fl,
     v |-> [TopicName |-> x.topic, Props |-> x.ps, Payload |-> x.pl]
           @@ (IF QoSOf(x.fl) \in {1, 2} THEN [PacketID |-> x.pid] ELSE EmptyFn)] :
    x \in {y \in [fl : {0, 1, 2, 3, 4, 5, 10, 11, 12, 13}, topic : {Txt(3), <<>>, Utf8Topic}, ps : PropSeqs(3),
                  pl : {<<>>, Bin(5), PropLikePayload, <<11, 5>>}, pid : {1, 65535}] :
             /\ (y.topic = <<>> => HasProp(y.ps, 35))
             /\ (~Thorough => (y.fl \in {0, 3, 13} \/ Len(y.ps) <= 1) /\ (y.pid = 1 \/ y.fl = 2))
             /\ (~Thorough /\ y.topic = Utf8Topic => y.fl = 0 /\ Len(y.ps) <= 1)
             /\ (~Thorough /\ y.pl \in {PropLikePayload, <<11, 5>>} => y.fl \in {0, 3})} }

Acks(t) ==
  { [t |-> t, fl |-> IF t = 6 THEN 2 ELSE 0, v |-> [PacketID |-> pid]] : pid \in {1, 65535} }
  \cup { [t |-> t, fl |-> IF t = 6 THEN 2 ELSE 0, v |-> [PacketID |-> 7, ReasonCode |-> r]] : r \in {0, 16, 128, 146} }
  \cup { [t |-> t, fl |-> IF t = 6 THEN 2 ELSE 0, v |-> [PacketID |-> 7, ReasonCode |-> r, Props |-> ps]] :
         r \in {0, 128}, ps \in PropSeqs(t) }

Subscribes ==
  { [t |-> 8, fl |-> 2, v |-> [PacketID |-> pid, Props |-> ps, Filters |-> fs]] :
    pid \in {1, 65535}, ps \in PropSeqs(8),
    fs \in { << <<Txt(3), 0>> >>, << <<Txt(3), 1>>, <<Txt(1), 2>> >>,
             << <<Txt(2), 45>>, <<Txt(3), 0>>, <<Txt(2), 45>> >> } }      \* 45 = QoS1, NL, RAP, retain handling 2
  \cup { [t |-> 8, fl |-> 2, v |-> [PacketID |-> 1, Props |-> <<>>, Filters |-> fs]] :       \* filter texts MQTT gives a meaning to
         fs \in {<< <<sx, o>>, <<Txt(2), 1>> >> : sx \in SpecialTexts, o \in {0, 4, 5}}
                \cup {<< <<Txt(2), 1>>, <<sx, o>> >> : sx \in SpecialTexts, o \in {4}} }

SubAcks(t) ==
  { [t |-> t, fl |-> 0, v |-> [PacketID |-> pid, Props |-> ps, ReasonCodes |-> rc]] :
    pid \in {1, 65535}, ps \in PropSeqs(t), rc \in {<<0>>, <<1, 128, 1>>, <<2, 0, 135, 17>>} }

Unsubscribes ==
  { [t |-> 10, fl |-> 2, v |-> [PacketID |-> pid, Props |-> ps, Filters |-> fs]] :
    pid \in {1, 65535}, ps \in PropSeqs(10),
    fs \in { <<Txt(3)>>, <<Txt(1), Txt(4), Txt(1)>> } }
  \cup { [t |-> 10, fl |-> 2, v |-> [PacketID |-> 1, Props |-> <<>>, Filters |-> <<sx, Txt(2)>>]] : sx \in SpecialTexts }

Pings(t) == { [t |-> t, fl |-> 0, v |-> EmptyFn] }

Disconnects ==
  { [t |-> 14, fl |-> 0, v |-> EmptyFn] }
  \cup { [t |-> 14, fl |-> 0, v |-> [ReasonCode |-> r]] : r \in {0, 4, 129} }
  \cup { [t |-> 14, fl |-> 0, v |-> [ReasonCode |-> r, Props |-> ps]] : r \in {0, 142}, ps \in PropSeqs(14) }

Auths ==
  { [t |-> 15, fl |-> 0, v |-> EmptyFn] }
  \cup { [t |-> 15, fl |-> 0, v |-> [ReasonCode |-> r, Props |-> ps]] : r \in {0, 24, 25}, ps \in PropSeqs(15) }

(* one string / binary field at each boundary length *)
Lens == {0, 1, 40, 49, 127, 128, 255, 256, 16383, 16384, 65534, 65535}      \* (40, 49, 255, 256: sizes at which renderings may shorten a text)
LongOnesAll(t) ==
  IF t = 1 THEN { [t |-> 1, fl |-> 0, v |-> [ProtocolName |-> MQTTName, ProtocolVersion |-> 5, ConnectFlags |-> 128 + 64 + 4,
                    KeepAlive |-> 1, Props |-> IF j = 1 THEN <<PV(21, Txt(n))>> ELSE IF j = 2 THEN <<PV(21, Txt(1)), PV(22, Bin(n))>> ELSE <<>>,
                    ClientID |-> IF j = 3 THEN Txt(n) ELSE Txt(1),
                    WillProps |-> IF j = 4 THEN <<PV(8, Txt(n))>> ELSE IF j = 5 THEN <<PV(38, <<Txt(1), Txt(n)>>)>> ELSE <<>>,
                    WillTopic |-> IF j = 6 /\ n > 0 THEN Txt(n) ELSE Txt(1), WillPayload |-> IF j = 7 THEN Bin(n) ELSE <<>>,
                    Username |-> IF j = 8 THEN Txt(n) ELSE Txt(1), Password |-> IF j = 9 THEN Bin(n) ELSE <<1>>]] :
                  n \in Lens, j \in 1..9 }
  ELSE IF t = 2 THEN { [t |-> 2, fl |-> 0, v |-> [AckFlags |-> 0, ReasonCode |-> rc, Props |-> <<PV(id, Txt(n))>>]] : n \in Lens, id \in {18, 31, 26, 28}, rc \in {0, 135} }
  ELSE IF t = 3 THEN { [t |-> 3, fl |-> 0, v |-> [TopicName |-> Txt(n), Props |-> <<>>, Payload |-> <<>>]] : n \in Lens \ {0} }
                     \cup { [t |-> 3, fl |-> 0, v |-> [TopicName |-> Txt(1), Props |-> <<PV(id, Txt(n))>>, Payload |-> <<>>]] : n \in Lens, id \in {3, 9, 38} \ {38} }
                     \cup { [t |-> 3, fl |-> 0, v |-> [TopicName |-> Txt(1), Props |-> <<PV(38, <<Txt(IF j = 1 THEN n ELSE 1), Txt(IF j = 2 THEN n ELSE 1)>>)>>, Payload |-> Bin(2)]] : n \in Lens \ {0}, j \in 1..2 }
  ELSE IF t \in 4..7 THEN { [t |-> t, fl |-> IF t = 6 THEN 2 ELSE 0, v |-> [PacketID |-> 1, ReasonCode |-> rc, Props |-> <<PV(31, Txt(n))>>]] : n \in Lens, rc \in {0, 146} }
  ELSE IF t = 8 THEN { [t |-> 8, fl |-> 2, v |-> [PacketID |-> 1, Props |-> <<>>, Filters |-> << <<Txt(n), 1>>, <<Txt(1), 0>> >>]] : n \in Lens \ {0} }
  ELSE IF t \in {9, 11} THEN { [t |-> t, fl |-> 0, v |-> [PacketID |-> 1, Props |-> <<PV(31, Txt(n))>>, ReasonCodes |-> <<0>>]] : n \in Lens }
  ELSE IF t = 10 THEN { [t |-> 10, fl |-> 2, v |-> [PacketID |-> 1, Props |-> <<>>, Filters |-> <<Txt(n), Txt(1)>>]] : n \in Lens \ {0} }
  ELSE IF t = 14 THEN { [t |-> 14, fl |-> 0, v |-> [ReasonCode |-> rc, Props |-> <<PV(id, Txt(n))>>]] : n \in Lens, id \in {31, 28}, rc \in {0, 142} }
  ELSE IF t = 15 THEN { [t |-> 15, fl |-> 0, v |-> [ReasonCode |-> 24, Props |-> <<PV(21, Txt(IF j = 1 THEN n ELSE 1))>> \o (IF j = 2 THEN <<PV(22, Bin(n))>> ELSE <<>>)]] : n \in Lens, j \in 1..2 }
  ELSE {}

(***************************************************************************)
(* a dictionary of texts, each placed in every text field of every packet  *)
(* type, one field at a time: strings MQTT gives a meaning to, characters  *)
(* that mean something to formatters, printers and parsers, every UTF-8    *)
(* sequence length, texts that repeat other parts of the rendering         *)
(***************************************************************************)
DictTexts == SpecialTexts \cup
  { <<38, 97, 61, 98>>,                                                     \* &a=b
    <<37, 115, 37, 100, 37, 118>>, <<37>>, <<37, 33, 115, 40, 77, 73, 83, 83, 73, 78, 71, 41>>,   \* %s%d%v  %  %!s(MISSING)
    <<32>>, <<97, 32, 98>>, <<34, 113, 34>>, <<92, 110>>, <<39>>,         \* space, a b, "q", \n (two characters), '
    <<49, 50, 51>>, <<45, 49>>, <<48>>,                                    \* 123  -1  0
    <<80, 85, 66, 76, 73, 83, 72>>, <<42, 42, 42, 42, 42, 42, 42, 42, 42>>, <<110, 105, 108>>, <<60, 110, 105, 108, 62>>,   \* PUBLISH ********* nil <nil>
    <<49, 50, 32, 98, 121, 116, 101, 115>>, <<109, 97, 108, 102, 111, 114, 109, 101, 100, 33>>,      \* "12 bytes"  "malformed!"
    <<123, 34, 97, 34, 58, 49, 125>>, <<91, 49, 32, 50, 93>>,              \* {"a":1}  [1 2]
    <<195, 169>>, <<239, 191, 189>>, <<239, 187, 191, 97>>, <<240, 159, 152, 128>>, <<244, 143, 191, 189>>,   \* e-acute, U+FFFD, BOM + a, U+1F600, U+10FFFD
    <<237, 159, 191>>, <<238, 128, 128>>, <<194, 160>>, <<224, 160, 128>>,  \* U+D7FF, U+E000, U+00A0, U+0800
    [i \in 1..41 |-> IF i % 8 = 0 THEN 47 ELSE 97 + (i % 26)] }            \* 41 characters with separators

(* texts that are not well-formed UTF-8 (accepted or rejected at the decoder's choice; rendering them must still be total) *)
BadTexts == { [i \in 1..70 |-> 128 + (i % 64)], [i \in 1..66 |-> IF i = 66 THEN 97 ELSE 191], <<255, 255, 255>>, <<192, 128>>, <<237, 160, 128>>,
              [i \in 1..130 |-> IF i % 2 = 0 THEN 128 ELSE 195], <<97, 0, 98>>, <<240, 159>> }
TextPkts(t, tx) ==
  LET up1 == PV(38, <<tx, Txt(1)>>)  up2 == PV(38, <<Txt(2), tx>>) IN
  IF t = 1 THEN { [t |-> 1, fl |-> 0, v |-> [ProtocolName |-> MQTTName, ProtocolVersion |-> 5, ConnectFlags |-> 128 + 64 + 4,
                    KeepAlive |-> 1, Props |-> IF j = 1 THEN <<PV(21, tx)>> ELSE IF j = 2 THEN <<up1>> ELSE IF j = 3 THEN <<up2>> ELSE <<>>,
                    ClientID |-> IF j = 4 THEN tx ELSE Txt(1),
                    WillProps |-> IF j = 5 THEN <<PV(8, tx)>> ELSE IF j = 6 THEN <<PV(3, tx)>> ELSE IF j = 7 THEN <<up1, up2>> ELSE <<>>,
                    WillTopic |-> IF j = 8 THEN tx ELSE Txt(1), WillPayload |-> IF j = 9 THEN tx ELSE <<>>,
                    Username |-> IF j = 10 THEN tx ELSE Txt(1), Password |-> IF j = 11 THEN tx ELSE <<1>>]] : j \in 1..11 }
  ELSE IF t = 2 THEN { [t |-> 2, fl |-> 0, v |-> [AckFlags |-> 0, ReasonCode |-> IF j = 2 THEN 135 ELSE 0, Props |-> ps]] :
                       j \in 1..2, ps \in {<<PV(id, tx)>> : id \in {18, 31, 26, 28, 21}} \cup {<<up1>>, <<up2>>} }
  ELSE IF t = 3 THEN { [t |-> 3, fl |-> 0, v |-> [TopicName |-> tx, Props |-> <<>>, Payload |-> Bin(2)]],
                       [t |-> 3, fl |-> 2, v |-> [TopicName |-> tx, PacketID |-> 9, Props |-> <<PV(9, tx)>>, Payload |-> tx]] }
                     \cup { [t |-> 3, fl |-> 0, v |-> [TopicName |-> Txt(1), Props |-> ps, Payload |-> <<>>]] :
                            ps \in {<<PV(3, tx)>>, <<PV(8, tx)>>, <<up1>>, <<up2>>, <<PV(9, tx)>>} }
  ELSE IF t \in 4..7 THEN { [t |-> t, fl |-> IF t = 6 THEN 2 ELSE 0, v |-> [PacketID |-> 1, ReasonCode |-> rc, Props |-> ps]] :
                            rc \in {0, 128}, ps \in {<<PV(31, tx)>>, <<up1>>, <<up2>>} }
  ELSE IF t = 8 THEN { [t |-> 8, fl |-> 2, v |-> [PacketID |-> 1, Props |-> ps, Filters |-> fs]] :
                       ps \in {<<>>, <<up1>>}, fs \in {<< <<tx, 1>> >>, << <<Txt(1), 0>>, <<tx, 2>> >>} }
  ELSE IF t \in {9, 11} THEN { [t |-> t, fl |-> 0, v |-> [PacketID |-> 1, Props |-> ps, ReasonCodes |-> <<0, 128>>]] :
                               ps \in {<<PV(31, tx)>>, <<up2>>} }
  ELSE IF t = 10 THEN { [t |-> 10, fl |-> 2, v |-> [PacketID |-> 1, Props |-> <<>>, Filters |-> fs]] : fs \in {<<tx>>, <<Txt(1), tx>>} }
  ELSE IF t = 14 THEN { [t |-> 14, fl |-> 0, v |-> [ReasonCode |-> rc, Props |-> ps]] :
                        rc \in {0, 130}, ps \in {<<PV(31, tx)>>, <<PV(28, tx)>>, <<up1>>} }
  ELSE IF t = 15 THEN { [t |-> 15, fl |-> 0, v |-> [ReasonCode |-> 24, Props |-> ps]] :
                        ps \in {<<PV(21, tx)>>, <<PV(21, Txt(1)), PV(31, tx)>>, <<PV(21, Txt(1)), up2>>} }
  ELSE {}
(* only the fully valid ones are frames the library must accept (a wildcard in a topic name is not) *)
DictOnes(t) == LET all == UNION {TextPkts(t, tx) : tx \in DictTexts} IN
               {p \in (IF Thorough THEN all ELSE Sample(all, 150)) : SemOK(p)}

(* quick tier: every short boundary length, and a seed-dependent dozen of the long ones per type *)
LongOnes(t) ==
  IF Thorough THEN LongOnesAll(t)
  ELSE LET all == LongOnesAll(t)
           big == {p \in all : Len(Encode(p)) > 1000}
       IN (all \ big) \cup Sample(big, 12)

(* frames whose remaining length sits on each side of the 1/2/3/4-byte thresholds *)
Thresholds == IF Thorough THEN {127, 128, 16383, 16384, 2097151, 2097152} ELSE {127, 128, 16383, 16384}
SizedOnes(t) ==
  IF t = 3 THEN { [t |-> 3, fl |-> 0, v |-> [TopicName |-> Txt(3), Props |-> <<>>, Payload |-> Bin(rl - 6)]] : rl \in Thresholds }
  ELSE IF t = 10 THEN       \* filters of 65 533 bytes (+2 prefix) and a last one to fit
       { LET body == rl - 3
             nfull == body \div 65535
             rest == body % 65535
         IN [t |-> 10, fl |-> 2, v |-> [PacketID |-> 1, Props |-> <<>>,
               Filters |-> [i \in 1..nfull |-> Txt(65533)] \o (IF rest >= 2 THEN <<Txt(rest - 2)>> ELSE <<>>)]] :
         rl \in {x \in Thresholds : (x - 3) % 65535 # 1 /\ x > 5} }
  ELSE {}

WirePkts(t) ==
  IF t = 1 THEN Connects ELSE IF t = 2 THEN ConnAcks ELSE IF t = 3 THEN Publishes
  ELSE IF t \in 4..7 THEN Acks(t) ELSE IF t = 8 THEN Subscribes ELSE IF t \in {9, 11} THEN SubAcks(t)
  ELSE IF t = 10 THEN Unsubscribes ELSE IF t \in {12, 13} THEN Pings(t)
  ELSE IF t = 14 THEN Disconnects ELSE Auths

(***************************************************************************)
(*                               programs                                  *)
(***************************************************************************)
ReadProg(fam, bytes, meta) ==
  [fam |-> fam, meta |-> meta,
   steps |-> << [op |-> "Stream", stream |-> 1, bytes |-> bytes],
                [op |-> "ReadPacket", h |-> 1, stream |-> 1],
                [op |-> "Diag", h |-> 1] >>]

(***************************************************************************)
(*  family "frames": every case is an abstract wire packet                 *)
(***************************************************************************)
FrameCases == UNION { {[kind |-> "frame", p |-> p] : p \in WirePkts(t) \cup LongOnes(t) \cup SizedOnes(t) \cup DictOnes(t)} : t \in TYPES }

FrameTheorems(p) ==
  LET f == Encode(p)  d == StrictDecode(f) IN
  /\ WFWire(p)
  /\ d.ok /\ d.pkt = p                                         \* the reference decoder inverts the reference encoder
  /\ Verdict(f).kind = "accept"                                \* and the generated packets are fully valid
  /\ Framed(f)
  /\ \A cpos \in (IF Len(f) <= 300 THEN InteriorCuts(d.fm) ELSE CutSample(d.fm)) :   \* every interior cut must be rejected (C09 a)
        LET vd == Verdict(Reframe(f, d.hdr, cpos)) IN vd.kind = "reject" /\ vd.cls = "cut"

(***************************************************************************)
(*  family "mutants": (base packet, mutation)                              *)
(***************************************************************************)
UndefIds == (0..255) \ DefinedIds
NProps(p) == IF "Props" \in DOMAIN p.v THEN Len(p.v["Props"]) ELSE 0
(* base packets for cuts and prefixes: at most one property, or the full ascending section; *)
(* for the exhaustive identifier / boolean sweeps: two packets per type                     *)
(* packets the API can build whose frames are not fully valid MQTT (empty filter strings), so they are not in the *)
(* frames family; C01 still demands the round trip                                                              *)
BuildOnly(t) ==
  IF t = 10 THEN {[t |-> 10, fl |-> 2, v |-> [PacketID |-> 5, Props |-> <<>>, Filters |-> fs]] :
                    fs \in {<<Txt(3), <<>>, Txt(2)>>, <<<<>>>>, <<Txt(1), <<>>>>, <<<<>>, Txt(2), <<>>, Txt(4)>>,
                            <<Txt(3), <<>>, Txt(4)>>, <<Txt(2), <<>>, Txt(5)>>, <<Txt(6), <<>>>>}}
  ELSE IF t = 8 THEN {[t |-> 8, fl |-> 2, v |-> [PacketID |-> 5, Props |-> <<>>, Filters |-> fs]] :
                    fs \in {<< <<Txt(3), 1>>, <<<<>>, 0>>, <<Txt(2), 2>> >>, << <<<<>>, 1>> >>,
                            << <<Txt(5), 1>>, <<<<>>, 0>> >>, << <<Txt(9), 2>>, <<<<>>, 1>>, <<<<>>, 0>> >>}}
  ELSE {}
WillNProps(p) == IF "WillProps" \in DOMAIN p.v THEN Len(p.v["WillProps"]) ELSE 0
vbisOf(t) == LET small == {p \in WirePkts(t) : NProps(p) <= 1 /\ WillNProps(p) <= 1} IN
             Sample({p \in small : NProps(p) = 1 /\ Len(EncPropBody(p.v["Props"])) > 127}, 2)
BaseForMutants(t) ==
  LET small == {p \in WirePkts(t) : NProps(p) <= 1 /\ WillNProps(p) <= 1}
      full == {p \in WirePkts(t) : NProps(p) >= Cardinality(Allowed(t)) - 1 /\ NProps(p) > 1}
      \* packets with a multi-byte variable byte integer: subscription identifier, long property section
      vbis == {p \in small : NProps(p) = 1 /\ (p.v["Props"][1][1] = 11 \/ Len(EncPropBody(p.v["Props"])) > 127)}
  IN Sample(small, IF Thorough THEN 400 ELSE 40) \cup Sample(full, IF Thorough THEN 10 ELSE 2)
     \cup Sample(vbis, IF Thorough THEN 20 ELSE 3) \cup BuildOnly(t)
SweepBase(t) ==
  LET w == {p \in WirePkts(t) : "Props" \in DOMAIN p.v}
      none == {p \in w : NProps(p) = 0}
      one == {p \in w : NProps(p) = 1}
  IN (IF none = {} THEN {} ELSE {CHOOSE p \in none : TRUE}) \cup (IF one = {} THEN {} ELSE {CHOOSE p \in one : TRUE})

(* positions (1-based, in the property sequence) where an extra property may be inserted *)
WithProp(p, pos, pr) == [p EXCEPT !.v["Props"] = SubSeq(@, 1, pos - 1) \o <<pr>> \o SubSeq(@, pos, Len(@))]

(* the value v spelled as four continuation bytes and a fifth byte (b5 = 0 or 128 adds nothing to the value) *)
Pad5(v, b5) == <<128 + (v % 128), 128 + ((v \div 128) % 128), 128 + ((v \div 16384) % 128), 128 + ((v \div 2097152) % 128), b5>>

RECURSIVE IdPositions(_, _)
IdPositions(fm, i) == IF i > Len(fm) THEN <<>>
                      ELSE (IF fm[i].k = "id" THEN <<fm[i].s>> ELSE <<>>) \o IdPositions(fm, i + 1)

MutantCases ==
  UNION { LET base == BaseForMutants(t)
              bools == Allowed(t) \cap BoolIds
              one == CHOOSE r \in base : TRUE
          IN UNION {{[kind |-> "cut", p |-> p, at |-> cpos] :
                       cpos \in LET f == Encode(p) IN IF Len(f) <= 300 THEN InteriorCuts(StrictDecode(f).fm) ELSE CutSample(StrictDecode(f).fm)} : p \in base}
             \cup {[kind |-> "undef", p |-> p, pos |-> pos, id |-> id] :
                  p \in SweepBase(t), pos \in 1..2, id \in UndefIds}
             \cup {[kind |-> "bool", p |-> p, pos |-> 1, id |-> id, val |-> val] :
                  p \in {q \in SweepBase(t) : NProps(q) = 0}, id \in bools, val \in 2..255}
             \cup UNION {{[kind |-> "prefix", p |-> p, at |-> n] :
                       n \in LET len == Len(Encode(p)) IN IF len <= 300 THEN 0..(len - 1) ELSE (0..40) \cup ((len - 5)..(len - 1))} : p \in base}
             \cup {[kind |-> "rlfifth", p |-> one, b5 |-> b5] : b5 \in {0, 1, 127, 128, 255}}
             \* a property that MQTT defines but not for this packet, with a well-formed value (verdict "either")
             \cup {[kind |-> "foreign", p |-> p, pos |-> pos, id |-> id] :
                  p \in SweepBase(t), pos \in 1..2, id \in DefinedIds \ Allowed(t)}
             \* a subscription identifier where MQTT allows none, its integer cut short or five bytes long
             \cup {[kind |-> "badsubid", t |-> t, val |-> val, tail |-> tl] :
                  val \in {<<128>>, <<128, 128>>, <<255, 255, 255, 255, 127>>, <<255, 255, 255, 128, 1>>, <<0>>}, tl \in {<<>>, <<38, 0, 1, 98, 0, 1, 98>>}}
             \* one length field (a property length, a string / binary length prefix) one more or one less than what is there,
             \* the remaining length left as it is: what follows is read out of step
             \cup UNION {{[kind |-> "lenpm", p |-> p, fld |-> j, d |-> dd] :
                            j \in {i \in 1..Len(StrictDecode(Encode(p)).fm) : StrictDecode(Encode(p)).fm[i].k \in {"vbi", "str", "str2"}},
                            dd \in {-1, 1}} : p \in Sample(base, IF Thorough THEN 60 ELSE 10) \cup vbisOf(t)}
             \* a user property whose key / value is not well-formed UTF-8, as the last and as the first property
             \cup {[kind |-> "badutf8", p |-> p, pos |-> pos, key |-> ky, val |-> vl] :
                  p \in SweepBase(t), pos \in 1..2, ky \in {<<255, 97, 255>>, <<192, 128>>, <<237, 160, 128, 255>>, <<97>>},
                  vl \in {<<>>, <<255>>, <<98, 254, 99, 254>>}}
             \* a property repeated (protocol error, verdict "either"): same value, zero / empty value, both orders
             \cup UNION {{[kind |-> "dupprop", p |-> p, pos |-> pos, zero |-> z, first |-> fs] :
                            pos \in 1..NProps(p), z \in BOOLEAN, fs \in BOOLEAN} : p \in {q \in base : NProps(q) \in 1..2}}
             \* a property repeated, the second occurrence malformed: a boolean of 7, or the frame ending one byte early inside it
             \cup UNION {{[kind |-> "dupbad", p |-> p, pos |-> pos, mode |-> md] :
                            pos \in {i \in 1..NProps(p) : PropKind(p.v["Props"][i][1]) # "pair"}, md \in {"bool7", "cut1", "skip"}}
                         : p \in {q \in SweepBase(t) \cup base : NProps(q) \in 1..2 /\ DOMAIN q.v \cap {"Payload", "Filters", "ReasonCodes", "ClientID"} = {}}}
             \* the same with bytes behind the property section (defect F14 needs room to land in): PUBLISH with a payload
             \cup (IF t = 3 THEN {[kind |-> "dupbad", p |-> [t |-> 3, fl |-> fl, v |-> [TopicName |-> Txt(3), Props |-> <<PV(id, Txt(n))>>, Payload |-> PropLikePayload]
                                                                 @@ (IF fl = 2 THEN [PacketID |-> 65535] ELSE EmptyFn)],
                                    pos |-> 1, mode |-> "skip"] : id \in {3, 8, 9}, n \in {2, 3, 5}, fl \in {0, 2}}
                  ELSE {})
             \* text fields holding bytes that are not well-formed UTF-8, among them long runs of continuation bytes
             \cup {[kind |-> "badtext", p |-> p] : p \in UNION {TextPkts(t, tx) : tx \in BadTexts}}
             \* every variable byte integer of the frame (remaining length = field 0, property lengths, subscription
             \* identifiers) re-written as five bytes that spell the same value
             \cup UNION {{[kind |-> "vbi5", p |-> p, fld |-> j, b5 |-> b5] :
                            j \in {0} \cup {i \in 1..Len(StrictDecode(Encode(p)).fm) : StrictDecode(Encode(p)).fm[i].k = "vbi"},
                            b5 \in {0, 128}} : p \in Sample(base, IF Thorough THEN 60 ELSE 8)}
          : t \in TYPES }

MutantFrame(m) ==
  LET f == Encode(m.p)  d == StrictDecode(f) IN
  IF m.kind = "cut" THEN Reframe(f, d.hdr, m.at)
  ELSE IF m.kind = "undef" THEN
       LET g == Encode(WithProp(m.p, m.pos, PV(38, <<Txt(1), Txt(1)>>)))
           ids == IdPositions(StrictDecode(g).fm, 1)
       IN [g EXCEPT ![ids[m.pos]] = m.id]
  ELSE IF m.kind = "bool" THEN Encode(WithProp(m.p, m.pos, PV(m.id, m.val)))
  ELSE IF m.kind = "vbi5" THEN
       IF m.fld = 0 THEN <<f[1]>> \o Pad5(Len(f) - d.hdr, m.b5) \o SubSeq(f, d.hdr + 1, Len(f))
       ELSE LET x == d.fm[m.fld]
                val == DecVBI(f, x.s, Len(f), Len(f), FALSE).val
                body == SubSeq(f, d.hdr + 1, x.s - 1) \o Pad5(val, m.b5) \o SubSeq(f, x.e + 1, Len(f))
            IN <<f[1]>> \o VBI(Len(body)) \o body
  ELSE IF m.kind = "foreign" THEN Encode(WithProp(m.p, m.pos, PV(m.id, SampleVal(m.id))))
  ELSE IF m.kind = "badutf8" THEN Encode(WithProp(m.p, m.pos, PV(38, <<m.key, m.val>>)))
  ELSE IF m.kind = "badsubid" THEN
       LET pre == IF m.t = 1 THEN <<0, 4, 77, 81, 84, 84, 5, 2, 0, 60>> ELSE IF m.t = 2 THEN <<0, 0>> ELSE IF m.t = 3 THEN <<0, 1, 97>>
                  ELSE IF m.t \in 4..7 THEN <<0, 1, 0>> ELSE IF m.t \in 8..11 THEN <<0, 1>> ELSE IF m.t \in {14, 15} THEN <<0>> ELSE <<>>
           props == <<11>> \o m.val \o m.tail
           post == IF m.t = 1 THEN <<0, 0>> ELSE IF m.t = 8 THEN <<0, 1, 97, 0>> ELSE IF m.t = 10 THEN <<0, 1, 97>> ELSE IF m.t \in {9, 11} THEN <<0>> ELSE <<>>
           body == IF m.t \in {12, 13} THEN <<>> ELSE pre \o <<Len(props)>> \o props \o post
       IN <<m.t * 16 + (IF m.t \in {6, 8, 10} THEN 2 ELSE 0), Len(body)>> \o body
  ELSE IF m.kind = "badtext" THEN Encode(m.p)
  ELSE IF m.kind = "lenpm" THEN
       LET x == d.fm[m.fld] IN
       IF x.k = "vbi"
       THEN LET val == DecVBI(f, x.s, Len(f), Len(f), FALSE).val
                nv == IF val + m.d < 0 THEN 0 ELSE val + m.d
                enc == VBI(nv)
            IN IF Len(enc) = x.e - x.s + 1 THEN SubSeq(f, 1, x.s - 1) \o enc \o SubSeq(f, x.e + 1, Len(f)) ELSE f
       ELSE LET n == f[x.s] * 256 + f[x.s + 1]
                nv == IF n + m.d < 0 THEN 0 ELSE IF n + m.d > 65535 THEN 65535 ELSE n + m.d
            IN SubSeq(f, 1, x.s - 1) \o U16(nv) \o SubSeq(f, x.s + 2, Len(f))
  ELSE IF m.kind = "dupbad" THEN
       LET pr == m.p.v["Props"][m.pos]
           n == NProps(m.p)
           g == Encode(WithProp(m.p, n + 1, IF m.mode = "bool7" /\ PropKind(pr[1]) = "bool" THEN PV(pr[1], 7) ELSE pr))    \* the repeat is the last property
           \* skip: the repeat of a string / binary property is EMPTY and an undefined identifier stands behind it (defect F14: the decoder
           \* moved on by the width of the first value and never looked at that identifier)
           \* (the property section ends with the repeat and two more bytes, 00 01; property length and remaining length, both one byte, count them)
           g0 == Encode(WithProp(m.p, n + 1, PV(pr[1], <<>>)))
           plpos == LET fm == d.fm IN fm[CHOOSE i \in 1..Len(fm) : fm[i].k = "vbi" /\ ~fm[i].pv /\ \A j \in 1..(i - 1) : ~(fm[j].k = "vbi" /\ ~fm[j].pv)].s
           pend == plpos + g0[plpos]                                       \* last byte of the property section in g0
           g1 == [[g0 EXCEPT ![2] = @ + 2] EXCEPT ![plpos] = @ + 2]
           g2 == SubSeq(g1, 1, pend) \o <<0, 1>> \o SubSeq(g1, pend + 1, Len(g1))
       IN IF m.mode = "cut1" THEN SubSeq(<<g[1], g[2] - 1>> \o SubSeq(g, 3, Len(g) - 1), 1, Len(g) - 1)
          ELSE IF m.mode = "skip" THEN g2
          ELSE g
  ELSE IF m.kind = "dupprop" THEN
       LET pr == m.p.v["Props"][m.pos]
           other == IF m.zero THEN PV(pr[1], IF PropKind(pr[1]) = "pair" THEN <<pr[2][1], <<>>>> ELSE ZeroWire(pr[1])) ELSE pr
       IN Encode(WithProp(m.p, IF m.first THEN m.pos ELSE m.pos + 1, other))
  ELSE IF m.kind = "prefix" THEN SubSeq(f, 1, m.at)
  ELSE <<f[1], 255, 255, 255, 255, m.b5>> \o SubSeq(f, d.hdr + 1, Len(f))

MutantValid(m) == IF m.kind \in {"undef", "foreign", "badutf8"} THEN m.pos <= Len(m.p.v["Props"]) + 1
                  ELSE IF m.kind = "dupbad" THEN /\ Len(Encode(m.p)) < 120          \* (one-byte remaining length, so that cut1 can lower it in place)
                                                 /\ (m.mode = "bool7" => PropKind(m.p.v["Props"][m.pos][1]) = "bool")
                                                 /\ (m.mode = "cut1" => PropKind(m.p.v["Props"][m.pos][1]) \in {"u16", "u32", "str", "bin"})
                                                 /\ (m.mode = "skip" => PropKind(m.p.v["Props"][m.pos][1]) \in {"str", "bin"} /\ Len(m.p.v["Props"][m.pos][2]) >= 2 /\ Len(Encode(m.p)) < 100)
                  ELSE IF m.kind = "badsubid" THEN m.t \notin {12, 13}
                  ELSE TRUE

(* EncVal for an undefined identifier: the value bytes are irrelevant, the strict reader stops at the identifier *)
MutantTheorems(m) ==
  LET f == MutantFrame(m) IN
  IF m.kind \in {"cut", "undef", "bool"}
  THEN LET vd == Verdict(f) IN
       vd.kind = "reject" /\ vd.cls = (IF m.kind = "cut" THEN "cut" ELSE m.kind)
  ELSE IF m.kind = "vbi5" /\ m.fld # 0 /\ ~StrictDecode(Encode(m.p)).fm[m.fld].pv     \* a property length (the value of a property would
  THEN LET vd == Verdict(f) IN vd.kind = "reject" /\ vd.cls = "fifth"                   \* outgrow its section: see badsubid for those)
  ELSE IF m.kind = "dupbad"          \* the lenient reading meets the fault behind the repeated property: must reject, whatever the decoder tolerates
  THEN LET vd == Verdict(f) IN vd.kind = "reject" /\ vd.cls = (IF m.mode = "bool7" THEN "bool" ELSE IF m.mode = "skip" THEN "undef" ELSE "cut")
  ELSE IF m.kind = "badsubid"        \* a subscription identifier where the packet may carry none: its integer is still an integer
  THEN LET vd == Verdict(f) IN Len(m.val) = 5 => vd.kind = "reject" /\ vd.cls = "fifth"
  ELSE TRUE

(***************************************************************************)
(*  family "build": the same abstract packets, built through the public    *)
(*  API, written, read back, written again (C01, C02, C10, C11)            *)
(***************************************************************************)
CallOp(h, m, args) == [op |-> "Call", h |-> h, m |-> m, args |-> args]

PropCalls(h, ctx, props) ==
  [i \in 1..Len(props) |->
     LET id == props[i][1]  val == props[i][2]  kd == PropKind(id) IN
     IF id = 38 THEN CallOp(h, "AddUserProp", <<val[1], val[2]>>)
     ELSE IF id = 11 /\ ctx = 3 THEN CallOp(h, "AddSubscriptionID", <<Pair32(val)>>)
     ELSE CallOp(h, "Set" \o AccName(id), <<IF kd = "bool" THEN val = 1 ELSE val>>)]

(* will properties: 24 lives on the CONNECT, the rest on the will PUBLISH *)
WillPropCalls(hc, hw, props) ==
  [i \in 1..Len(props) |->
     LET id == props[i][1]  val == props[i][2]  kd == PropKind(id) IN
     IF id = 38 THEN CallOp(hw, "AddUserProp", <<val[1], val[2]>>)
     ELSE IF id = 24 THEN CallOp(hc, "SetWillDelayInterval", <<val>>)
     ELSE CallOp(hw, "Set" \o AccName(id), <<IF kd = "bool" THEN val = 1 ELSE val>>)]

BuildOps(p) ==
  LET v == p.v  t == p.t
      new == <<[op |-> "New", h |-> 1, type |-> TypeName(t)]>>
      props == IF "Props" \in DOMAIN v THEN PropCalls(1, t, v["Props"]) ELSE <<>>
      pid == IF "PacketID" \in DOMAIN v THEN <<CallOp(1, "SetPacketID", <<v["PacketID"]>>)>> ELSE <<>>
      rc == IF "ReasonCode" \in DOMAIN v THEN <<CallOp(1, "SetReasonCode", <<v["ReasonCode"]>>)>> ELSE <<>>
  IN IF t = 1 THEN
        LET fl == v["ConnectFlags"] IN
        new \o <<CallOp(1, "SetCleanStart", <<Bit(fl, 1)>>), CallOp(1, "SetKeepAlive", <<v["KeepAlive"]>>),
                 CallOp(1, "SetClientID", <<v["ClientID"]>>)>>
        \o props
        \o (IF "WillProps" \in DOMAIN v
            THEN <<[op |-> "New", h |-> 2, type |-> "Publish"],
                   CallOp(2, "SetTopicName", <<v["WillTopic"]>>), CallOp(2, "SetPayload", <<v["WillPayload"]>>),
                   CallOp(2, "SetQoS", <<(fl \div 8) % 4>>), CallOp(2, "SetRetain", <<Bit(fl, 5)>>)>>
                 \o WillPropCalls(1, 2, v["WillProps"]) \o <<CallOp(1, "SetWill", <<[h |-> 2]>>)>>
            ELSE <<>>)
        \o (IF "Username" \in DOMAIN v THEN <<CallOp(1, "SetUsername", <<v["Username"]>>)>> ELSE <<>>)
        \o (IF "Password" \in DOMAIN v THEN <<CallOp(1, "SetPassword", <<v["Password"]>>)>> ELSE <<>>)
     ELSE IF t = 2 THEN new \o <<CallOp(1, "SetSessionPresent", <<Bit(v["AckFlags"], 0)>>)>> \o rc \o props
     ELSE IF t = 3 THEN
        new \o <<CallOp(1, "SetQoS", <<QoSOf(p.fl)>>), CallOp(1, "SetDuplicate", <<Bit(p.fl, 3)>>),
                 CallOp(1, "SetRetain", <<Bit(p.fl, 0)>>), CallOp(1, "SetTopicName", <<v["TopicName"]>>)>>
        \o pid \o props \o <<CallOp(1, "SetPayload", <<v["Payload"]>>)>>
     ELSE IF t = 8 THEN new \o pid \o props \o <<CallOp(1, "AddFilters", v["Filters"])>>
     ELSE IF t \in {9, 11} THEN new \o pid \o props
                                \o [i \in 1..Len(v["ReasonCodes"]) |-> CallOp(1, "AddReasonCode", <<v["ReasonCodes"][i]>>)]
     ELSE IF t = 10 THEN new \o pid \o props \o [i \in 1..Len(v["Filters"]) |-> CallOp(1, "AddFilter", <<v["Filters"][i]>>)]
     ELSE new \o pid \o rc \o props

(* packets with long fields: the same round trip with the accessor record logged only where it is judged (after the last call, *)
(* at the write and at the read), and without the repetitions: the volume of the trace, not the verdict, is what is cut        *)
BigBuildProg(p) ==
  LET ops == BuildOps(p) IN
  [fam |-> "build", meta |-> [t |-> p.t, big |-> TRUE],
   steps |-> [i \in 1..Len(ops) |-> IF i < Len(ops) THEN ops[i] @@ [noobs |-> TRUE] ELSE ops[i]] \o
             << [op |-> "WriteTo", h |-> 1],
                [op |-> "Stream", stream |-> 1, from |-> 1],
                [op |-> "ReadPacket", h |-> 3, stream |-> 1],
                [op |-> "Diag", h |-> 1, noobs |-> TRUE],
                [op |-> "WriteTo", h |-> 1, noobs |-> TRUE],
                [op |-> "Stream", stream |-> 1, from |-> 1, key |-> "flip"],
                [op |-> "ReadPacket", h |-> 5, stream |-> 1],
                [op |-> "WriteTo", h |-> 3, noobs |-> TRUE] >>]
BuildProg(p) ==
  IF Len(Encode(p)) > 4000 THEN BigBuildProg(p) ELSE
  [fam |-> "build", meta |-> [t |-> p.t],
   steps |-> BuildOps(p) \o
             << [op |-> "WriteTo", h |-> 1],
                [op |-> "Stream", stream |-> 1, from |-> 1],
                [op |-> "ReadPacket", h |-> 3, stream |-> 1],
                [op |-> "Diag", h |-> 1],
                [op |-> "WriteN", h |-> 1, n |-> 8],
                [op |-> "WriteTo", h |-> 1],
                [op |-> "Diag", h |-> 3],
                \* the same bytes read once more while the first decoded packet is still in use: it must still be written as before
                [op |-> "Stream", stream |-> 1, from |-> 1],
                [op |-> "ReadPacket", h |-> 4, stream |-> 1],
                [op |-> "WriteTo", h |-> 3],
                \* and a frame of the same size whose last bytes differ (key flip: the driver alters them)
                [op |-> "Stream", stream |-> 1, from |-> 1, key |-> "flip"],
                [op |-> "ReadPacket", h |-> 5, stream |-> 1],
                [op |-> "WriteTo", h |-> 3], [op |-> "Diag", h |-> 3] >>]

(* the model state after BuildOps(p) reports what the frame of p carries *)
RECURSIVE RunOps(_, _, _)
RunOps(ops, i, pl) ==
  IF i > Len(ops) THEN pl
  ELSE LET s == ops[i] IN
       IF s.op = "New" THEN RunOps(ops, i + 1, (s.h :> [t |-> TypeNum(s.type), o |-> NewObs(TypeNum(s.type))]) @@ pl)
       ELSE LET wp == IF s.m = "SetWill" THEN pl[s.args[1].h].o ELSE EmptyFn IN
            RunOps(ops, i + 1, [pl EXCEPT ![s.h].o = Apply(pl[s.h].t, pl[s.h].o, s.m, s.args, wp)])

BuildTheorems(p) ==
  LET pl == RunOps(BuildOps(p), 1, EmptyFn) IN
  /\ \A i \in 2..Len(BuildOps(p)) : LET s == BuildOps(p)[i] IN s.op = "New" \/ s.m \in DOMAIN PlainKey \/ s.m \in
         {"AddUserProp", "AddSubscriptionID", "AddFilters", "AddFilter", "AddReasonCode", "SetUsername", "SetPassword",
          "SetCleanStart", "SetWill", "SetSessionPresent"}
  /\ ObsDiffModel(ObsOfWire(p), pl[1].o) = {}           \* API model and wire model agree on the packet
  /\ InC01Domain(p.t, pl[1].o)

(***************************************************************************)
(* packets the API can express: an empty user name or password clears its flag *)
Buildable(p) == p.t = 1 => /\ ("Username" \in DOMAIN p.v => Len(p.v["Username"]) > 0)
                           /\ ("Password" \in DOMAIN p.v => Len(p.v["Password"]) > 0)
BuildCases == UNION { {[kind |-> "build", p |-> p] : p \in BuildOnly(t)} : t \in TYPES } \cup UNION { {[kind |-> "build", p |-> p] : p \in {q \in WirePkts(t) \cup LongOnes(t) \cup SizedOnes(t) \cup DictOnes(t) : Buildable(q)}} : t \in TYPES }

Cases == IF FAMILY = "frames" THEN FrameCases
         ELSE IF FAMILY = "mutants" THEN {m \in MutantCases : MutantValid(m)}
         ELSE IF FAMILY = "build" THEN BuildCases
         ELSE {}

Init == c \in Cases /\ pool = EmptyFn
Next == UNCHANGED <<c, pool>>

Theorems == IF c.kind = "frame" THEN FrameTheorems(c.p)
            ELSE IF c.kind = "build" THEN BuildTheorems(c.p)
            ELSE MutantTheorems(c)

ProgOf(x) ==
  IF x.kind = "build" THEN BuildProg(x.p)
  ELSE IF x.kind = "frame" THEN ReadProg("frames", Encode(x.p), [t |-> x.p.t])
  ELSE IF x.kind = "prefix"
       THEN [fam |-> "mutants", meta |-> [kind |-> x.kind, t |-> x.p.t],
             steps |-> << [op |-> "Stream", stream |-> 1, bytes |-> MutantFrame(x)],
                          [op |-> "ReadPacket", h |-> 1, stream |-> 1] >>]
  ELSE IF x.kind = "badsubid" THEN ReadProg("mutants", MutantFrame(x), [kind |-> x.kind, t |-> x.t])
  ELSE ReadProg("mutants", MutantFrame(x), [kind |-> x.kind, t |-> x.p.t])

Emit == PrintT(<<"PROG", ToJson(ProgOf(c))>>)
=============================================================================
