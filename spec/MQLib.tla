------------------------------- MODULE MQLib -------------------------------
(***************************************************************************)
(* As-built layer: what the library's String() prints today, for every     *)
(* packet type.  MQTT and the properties leave this format free, so a      *)
(* difference is reported as a DRIFT note only (never a violation, never   *)
(* an exit code): the specification keeps describing the whole observable  *)
(* behaviour without turning a change of wording into an alarm.            *)
(* Literal texts come from the generated module MQLibText.                 *)
(***************************************************************************)
EXTENDS PacketAPI, MQLibText

RECURSIVE DecR(_)
DecR(n) == IF n < 10 THEN <<48 + n>> ELSE DecR(n \div 10) \o <<48 + (n % 10)>>
Dec(n) == IF n < 0 THEN <<45>> \o DecR(0 - n) ELSE DecR(n)
SP == <<32>>
Ch(b, c) == IF b THEN c ELSE 45                       \* the letter, or '-'

(* firstByte.String: TYPE dqqr *)
FirstByteText(b) ==
  LET q == QoSOf(b % 16) IN
  TypeText(b \div 16) \o SP \o <<Ch(Bit(b, 3), 100)>>
  \o (IF q = 3 THEN <<33, 33>> ELSE IF q = 1 THEN <<45, 49>> ELSE IF q = 2 THEN <<50, 45>> ELSE <<45, 45>>)
  \o <<Ch(Bit(b, 0), 114)>>

ConnectFlagsText(c) ==
  LET both == Bit(c, 3) /\ Bit(c, 4) IN
  <<Ch(Bit(c, 7), 117), Ch(Bit(c, 6), 112), Ch(Bit(c, 5), 114),
    IF both THEN 33 ELSE Ch(Bit(c, 4), 50), IF both THEN 33 ELSE Ch(Bit(c, 3), 49),
    Ch(Bit(c, 2), 119), Ch(Bit(c, 1), 115), Ch(Bit(c, 0), 33)>>

ConnAckFlagsText(c) == [i \in 1..8 |-> IF i < 8 THEN Ch(Bit(c, 8 - i), 33) ELSE Ch(Bit(c, 0), 115)]

FilterText(f) ==
  LET o == f[2]
      q3 == Bit(o, 0) /\ Bit(o, 1)
      r3 == Bit(o, 4) /\ Bit(o, 5)
  IN f[1] \o SP \o
     <<Ch(Bit(o, 7), 33), Ch(Bit(o, 6), 33),
       IF r3 THEN 33 ELSE 114,
       IF r3 THEN 33 ELSE IF Bit(o, 5) THEN 50 ELSE IF Bit(o, 4) THEN 49 ELSE 48,
       Ch(Bit(o, 3), 112), Ch(Bit(o, 2), 110),
       IF q3 THEN 33 ELSE Ch(Bit(o, 1), 50), IF q3 THEN 33 ELSE Ch(Bit(o, 0), 49)>>

(* time.Duration(seconds).String() *)
DurationText(s) ==
  LET h == s \div 3600  m == (s % 3600) \div 60  r == s % 60 IN
  IF h > 0 THEN Dec(h) \o <<104>> \o Dec(m) \o <<109>> \o Dec(r) \o <<115>>
  ELSE IF m > 0 THEN Dec(m) \o <<109>> \o Dec(r) \o <<115>>
  ELSE Dec(r) \o <<115>>

ReasonCodeText(c) == IF c \in KnownReasons THEN ReasonText(c) ELSE TxtReasonCodeOpen \o Dec(c) \o <<41>>

WithReason(base, code, reason) ==
  IF code >= 128 THEN base \o SP \o ReasonCodeText(code) \o <<33>> \o (IF reason # <<>> THEN SP \o reason ELSE <<>>)
  ELSE base

SizeText(n) == Dec(n) \o TxtBytes

PublishMalformed(o) ==
  IF Len(o["TopicName"]) = 0 /\ o["TopicAlias"] = 0 THEN TxtEmptyTopicName
  ELSE IF o["QoS"] \in {1, 2} /\ o["PacketID"] = 0 THEN TxtEmptyPacketID
  ELSE IF o["QoS"] = 3 THEN TxtInvalidQoS
  ELSE <<>>

RECURSIVE FirstBadFilter(_, _)
FirstBadFilter(fs, i) ==
  IF i > Len(fs) THEN <<>>
  ELSE IF Len(fs[i][1]) = 0 THEN TxtEmptyFilter
  ELSE IF fs[i][2] % 4 = 3 THEN TxtInvalidQoS
  ELSE FirstBadFilter(fs, i + 1)
SubscribeMalformed(o) ==
  IF Len(o["Filters"]) = 0 THEN TxtNoFilters
  ELSE IF o["SubscriptionID"] > MaxVBI THEN TxtTooLargeSubID
  ELSE FirstBadFilter(o["Filters"], 1)

WithForm(base, why) == IF why = <<>> THEN base ELSE base \o TxtMalformed \o why

(* what String() prints for a packet of type t with accessor record o, whose first byte is `first` and whose *)
(* encoded size is `size`                                                                                   *)
StringOf(t, o, first, size) ==
  LET fb == FirstByteText(first)
      pid == <<112>> \o Dec(o["PacketID"])
  IN
  IF t = 0 THEN FirstByteText(0) \o SP \o SizeText(0)
  ELSE IF t = 1 THEN fb \o SP \o ConnectFlagsText(o["Flags"]) \o SP \o o["ProtocolName"] \o Dec(o["ProtocolVersion"]) \o SP
                     \o o["ClientID"] \o SP \o DurationText(o["KeepAlive"]) \o SP \o SizeText(size)
  ELSE IF t = 2 THEN WithReason(fb \o SP \o ConnAckFlagsText(o["Flags"]) \o SP \o o["AssignedClientID"] \o SP \o SizeText(size),
                                o["ReasonCode"], o["ReasonString"])
  ELSE IF t = 3 THEN WithForm(fb \o SP \o pid \o SP
                              \o (IF o["TopicAlias"] > 0 THEN TxtTopicColon \o Dec(o["TopicAlias"]) ELSE o["TopicName"])
                              \o (IF Len(o["CorrelationData"]) > 0 THEN SP \o o["CorrelationData"] ELSE <<>>)
                              \o SP \o SizeText(size), PublishMalformed(o))
  ELSE IF t \in {4, 6} THEN WithReason(fb \o SP \o pid \o SP \o SizeText(size), o["ReasonCode"], o["ReasonString"])
  ELSE IF t \in {5, 7} THEN fb \o SP \o pid \o SP \o ReasonCodeText(o["ReasonCode"])
                            \o (IF o["ReasonCode"] > 0 /\ Len(o["ReasonString"]) > 0 THEN SP \o o["ReasonString"] ELSE <<>>)
                            \o SP \o SizeText(size)
  ELSE IF t = 8 THEN WithForm(fb \o SP \o pid \o SP \o (IF Len(o["Filters"]) = 0 THEN <<>> ELSE FilterText(o["Filters"][1]))
                              \o SP \o SizeText(size), SubscribeMalformed(o))
  ELSE IF t \in {9, 11} THEN fb \o SP \o pid \o SP \o SizeText(size)
  ELSE IF t = 10 THEN fb \o SP \o pid \o <<44, 32>> \o (IF Len(o["Filters"]) = 0 THEN TxtNoFiltersBang ELSE o["Filters"][1])
                      \o <<44, 32>> \o SizeText(size)
  ELSE IF t = 14 THEN WithReason(fb \o SP \o SizeText(size), o["ReasonCode"], o["ReasonString"])
  ELSE fb \o SP \o SizeText(size)

(***************************************************************************)
(* What Dump prints (as built): one line "Label: value" per accessor in    *)
(* the order of MQLibText!DumpSpec, then the will (CONNECT), the filters   *)
(* (SUBSCRIBE, UNSUBSCRIBE) and the user properties.  Go's %v prints a     *)
(* []byte as [1 2 3]; %q quotes.  Only values whose quoting is plain       *)
(* (printable ASCII) are predicted; everything else is left alone.         *)
(***************************************************************************)
NL == <<10>>
BoolKeys == {"CleanStart", "RequestProblemInfo", "RequestResponseInfo", "RetainAvailable", "SessionPresent", "SharedSubAvailable",
             "SubIdentifiersAvailable", "WildcardSubAvailable", "Duplicate", "PayloadFormat", "Retain"}
U32Keys == {"MaxPacketSize", "SessionExpiryInterval", "MessageExpiryInterval"}
NumKeys == {"KeepAlive", "ProtocolVersion", "ReceiveMax", "TopicAliasMax", "MaxQoS", "ServerKeepAlive", "PacketID", "QoS", "TopicAlias"}
ByteListKeys == {"AuthData", "CorrelationData", "Payload", "ReasonCodes"}

(* decimal text of a 32-bit value held as <<hi16, lo16>>, by long division (TLC integers are 32-bit signed) *)
RECURSIVE DecPairR(_, _)
DecPairR(hi, lo) ==
  IF hi = 0 THEN DecR(lo)
  ELSE LET qh == hi \div 10  rh == hi % 10
           rest == rh * 65536 + lo
       IN DecPairR(qh, rest \div 10) \o <<48 + (rest % 10)>>
DecPair(pr) == DecPairR(pr[1], pr[2])

RECURSIVE SpaceJoin(_)
SpaceJoin(ts) == IF ts = <<>> THEN <<>> ELSE IF Len(ts) = 1 THEN ts[1] ELSE ts[1] \o SP \o SpaceJoin(Tail(ts))
ListText(ts) == <<91>> \o SpaceJoin(ts) \o <<93>>

PlainText(x) == \A i \in 1..Len(x) : x[i] >= 32 /\ x[i] <= 126
RECURSIVE Escaped(_)
Escaped(x) == IF x = <<>> THEN <<>>
              ELSE (IF x[1] \in {34, 92} THEN <<92, x[1]>> ELSE <<x[1]>>) \o Escaped(Tail(x))
Quoted(x) == <<34>> \o (IF \E i \in 1..Len(x) : x[i] \in {34, 92} THEN Escaped(x) ELSE x) \o <<34>>
BoolText(b) == IF b THEN TxtTrue ELSE TxtFalse

ValueText(key, val, f) ==
  IF f \in {"q", "qb"} THEN Quoted(val)
  ELSE IF f = "sq" THEN Quoted(IF Len(val) = 0 THEN <<>> ELSE TxtStars)
  ELSE IF f = "sv" THEN (IF Len(val) = 0 THEN <<>> ELSE TxtStars)
  ELSE IF key \in BoolKeys THEN BoolText(val)
  ELSE IF key \in U32Keys THEN DecPair(val)
  ELSE IF key \in NumKeys THEN Dec(val)
  ELSE IF key = "ReasonCode" THEN ReasonCodeText(val)
  ELSE IF key \in ByteListKeys THEN ListText([i \in 1..Len(val) |-> Dec(val[i])])
  ELSE IF key = "SubscriptionIDs" THEN ListText([i \in 1..Len(val) |-> DecPair(val[i])])
  ELSE val                                                      \* text as it is

FieldLines(t, o) ==
  LET ds == DumpSpec(t) IN
  Concat([i \in 1..Len(ds) |-> ds[i].label \o <<58, 32>> \o ValueText(ds[i].key, o[ds[i].key], ds[i].f) \o NL])

UserPropLines(ups) ==
  IF Len(ups) = 0 THEN <<>>
  ELSE TxtUserProperties \o NL
       \o Concat([i \in 1..Len(ups) |-> <<32, 32>> \o Dec(i - 1) \o <<46, 32>> \o ups[i][1] \o <<58, 32>> \o Quoted(ups[i][2]) \o NL])

(* the will of a decoded CONNECT is a PUBLISH of its own: the fields a will cannot carry are at their defaults *)
WillAsPublish(w) == w @@ [Duplicate |-> FALSE, PacketID |-> 0, SubscriptionIDs |-> <<>>, TopicAlias |-> 0]

DumpOf(t, o) ==
  IF t \in {0, 12, 13} THEN <<>>
  ELSE FieldLines(t, o)
       \o (IF t = 1 /\ o["Will"].has
           THEN TxtWill \o NL \o FieldLines(3, WillAsPublish(o["Will"].val)) \o UserPropLines(o["Will"].val["UserProperties"])
           ELSE <<>>)
       \o (IF t = 8 /\ o["SubscriptionID"] # -1 THEN TxtSubscriptionID \o <<58, 32>> \o Dec(o["SubscriptionID"]) \o NL ELSE <<>>)
       \o (IF t \in {8, 10} /\ Len(o["Filters"]) > 0
           THEN TxtFilters \o NL
                \o Concat([i \in 1..Len(o["Filters"]) |-> <<32, 32>> \o Dec(i - 1) \o <<46, 32>>
                                                           \o (IF t = 8 THEN FilterText(o["Filters"][i]) ELSE o["Filters"][i]) \o NL])
           ELSE <<>>)
       \o UserPropLines(o["UserProperties"])

(* Dump is predicted only where the quoting of every quoted value is plain *)
Short(v) == Len(v) <= 300             \* (long values are left alone: predicting them costs more than it tells)
DumpPredictable(t, o) ==
  LET ds == DumpSpec(t) IN
  /\ \A i \in 1..Len(ds) : /\ ds[i].key \in DOMAIN o
                            /\ (ds[i].f \in {"q", "qb"} => PlainText(o[ds[i].key]) /\ Short(o[ds[i].key]))
                            /\ (ds[i].key \notin BoolKeys \cup U32Keys \cup NumKeys \cup {"ReasonCode"} => Short(o[ds[i].key]))
  /\ (t = 8 => o["SubscriptionID"] < 2147483647)          \* (larger identifiers are logged clamped)
  /\ (t \in {8, 10} => Len(o["Filters"]) <= 20 /\ \A i \in 1..Len(o["Filters"]) : Short(IF t = 8 THEN o["Filters"][i][1] ELSE o["Filters"][i]))
  /\ ("UserProperties" \in DOMAIN o => Len(o["UserProperties"]) <= 20 /\ \A i \in 1..Len(o["UserProperties"]) :
                                                Short(o["UserProperties"][i][1]) /\ Short(o["UserProperties"][i][2]))
  /\ (t = 1 /\ o["Will"].has => \A x \in {"TopicName", "Payload", "ContentType", "ResponseTopic", "CorrelationData"} : Short(o["Will"].val[x]))
  /\ ("UserProperties" \in DOMAIN o => \A i \in 1..Len(o["UserProperties"]) : PlainText(o["UserProperties"][i][2]))
  /\ (t = 1 /\ o["Will"].has => /\ "ref" \notin DOMAIN o["Will"]
                                 /\ \A i \in 1..Len(o["Will"].val["UserProperties"]) : PlainText(o["Will"].val["UserProperties"][i][2]))
=============================================================================
