------------------------------- MODULE MQLib -------------------------------
(***************************************************************************)
(* As-built layer: what the library's String() prints today, for every     *)
(* packet type.  MQTT and the properties leave this format free, so a      *)
(* difference is reported as a DRIFT note only (never a violation, never   *)
(* an exit code): the specification keeps describing the whole observable  *)
(* behaviour without turning a change of wording into an alarm.            *)
(* Literal texts come from the generated module MQLibText.                 *)
(***************************************************************************)
EXTENDS PacketAPI, MQLibText

RECURSIVE DecR(_)
DecR(n) == IF n < 10 THEN <<48 + n>> ELSE DecR(n \div 10) \o <<48 + (n % 10)>>
Dec(n) == IF n < 0 THEN <<45>> \o DecR(0 - n) ELSE DecR(n)
SP == <<32>>
Ch(b, c) == IF b THEN c ELSE 45                       \* the letter, or '-'

(* firstByte.String: TYPE dqqr *)
FirstByteText(b) ==
  LET q == QoSOf(b % 16) IN
  TypeText(b \div 16) \o SP \o <<Ch(Bit(b, 3), 100)>>
  \o (IF q = 3 THEN <<33, 33>> ELSE IF q = 1 THEN <<45, 49>> ELSE IF q = 2 THEN <<50, 45>> ELSE <<45, 45>>)
  \o <<Ch(Bit(b, 0), 114)>>

ConnectFlagsText(c) ==
  LET both == Bit(c, 3) /\ Bit(c, 4) IN
  <<Ch(Bit(c, 7), 117), Ch(Bit(c, 6), 112), Ch(Bit(c, 5), 114),
    IF both THEN 33 ELSE Ch(Bit(c, 4), 50), IF both THEN 33 ELSE Ch(Bit(c, 3), 49),
    Ch(Bit(c, 2), 119), Ch(Bit(c, 1), 115), Ch(Bit(c, 0), 33)>>

ConnAckFlagsText(c) == [i \in 1..8 |-> IF i < 8 THEN Ch(Bit(c, 8 - i), 33) ELSE Ch(Bit(c, 0), 115)]

FilterText(f) ==
  LET o == f[2]
      q3 == Bit(o, 0) /\ Bit(o, 1)
      r3 == Bit(o, 4) /\ Bit(o, 5)
  IN f[1] \o SP \o
     <<Ch(Bit(o, 7), 33), Ch(Bit(o, 6), 33),
       IF r3 THEN 33 ELSE 114,
       IF r3 THEN 33 ELSE IF Bit(o, 5) THEN 50 ELSE IF Bit(o, 4) THEN 49 ELSE 48,
       Ch(Bit(o, 3), 112), Ch(Bit(o, 2), 110),
       IF q3 THEN 33 ELSE Ch(Bit(o, 1), 50), IF q3 THEN 33 ELSE Ch(Bit(o, 0), 49)>>

(* time.Duration(seconds).String() *)
DurationText(s) ==
  LET h == s \div 3600  m == (s % 3600) \div 60  r == s % 60 IN
  IF h > 0 THEN Dec(h) \o <<104>> \o Dec(m) \o <<109>> \o Dec(r) \o <<115>>
  ELSE IF m > 0 THEN Dec(m) \o <<109>> \o Dec(r) \o <<115>>
  ELSE Dec(r) \o <<115>>

ReasonCodeText(c) == IF c \in KnownReasons THEN ReasonText(c) ELSE TxtReasonCodeOpen \o Dec(c) \o <<41>>

WithReason(base, code, reason) ==
  IF code >= 128 THEN base \o SP \o ReasonCodeText(code) \o <<33>> \o (IF reason # <<>> THEN SP \o reason ELSE <<>>)
  ELSE base

SizeText(n) == Dec(n) \o TxtBytes

PublishMalformed(o) ==
  IF Len(o["TopicName"]) = 0 /\ o["TopicAlias"] = 0 THEN TxtEmptyTopicName
  ELSE IF o["QoS"] \in {1, 2} /\ o["PacketID"] = 0 THEN TxtEmptyPacketID
  ELSE IF o["QoS"] = 3 THEN TxtInvalidQoS
  ELSE <<>>

RECURSIVE FirstBadFilter(_, _)
FirstBadFilter(fs, i) ==
  IF i > Len(fs) THEN <<>>
  ELSE IF Len(fs[i][1]) = 0 THEN TxtEmptyFilter
  ELSE IF fs[i][2] % 4 = 3 THEN TxtInvalidQoS
  ELSE FirstBadFilter(fs, i + 1)
SubscribeMalformed(o) ==
  IF Len(o["Filters"]) = 0 THEN TxtNoFilters
  ELSE IF o["SubscriptionID"] > MaxVBI THEN TxtTooLargeSubID
  ELSE FirstBadFilter(o["Filters"], 1)

WithForm(base, why) == IF why = <<>> THEN base ELSE base \o TxtMalformed \o why

(* what String() prints for a packet of type t with accessor record o, whose first byte is `first` and whose *)
(* encoded size is `size`                                                                                   *)
StringOf(t, o, first, size) ==
  LET fb == FirstByteText(first)
      pid == <<112>> \o Dec(o["PacketID"])
  IN
  IF t = 0 THEN FirstByteText(0) \o SP \o SizeText(0)
  ELSE IF t = 1 THEN fb \o SP \o ConnectFlagsText(o["Flags"]) \o SP \o o["ProtocolName"] \o Dec(o["ProtocolVersion"]) \o SP
                     \o o["ClientID"] \o SP \o DurationText(o["KeepAlive"]) \o SP \o SizeText(size)
  ELSE IF t = 2 THEN WithReason(fb \o SP \o ConnAckFlagsText(o["Flags"]) \o SP \o o["AssignedClientID"] \o SP \o SizeText(size),
                                o["ReasonCode"], o["ReasonString"])
  ELSE IF t = 3 THEN WithForm(fb \o SP \o pid \o SP
                              \o (IF o["TopicAlias"] > 0 THEN TxtTopicColon \o Dec(o["TopicAlias"]) ELSE o["TopicName"])
                              \o (IF Len(o["CorrelationData"]) > 0 THEN SP \o o["CorrelationData"] ELSE <<>>)
                              \o SP \o SizeText(size), PublishMalformed(o))
  ELSE IF t \in {4, 6} THEN WithReason(fb \o SP \o pid \o SP \o SizeText(size), o["ReasonCode"], o["ReasonString"])
  ELSE IF t \in {5, 7} THEN fb \o SP \o pid \o SP \o ReasonCodeText(o["ReasonCode"])
                            \o (IF o["ReasonCode"] > 0 /\ Len(o["ReasonString"]) > 0 THEN SP \o o["ReasonString"] ELSE <<>>)
                            \o SP \o SizeText(size)
  ELSE IF t = 8 THEN WithForm(fb \o SP \o pid \o SP \o (IF Len(o["Filters"]) = 0 THEN <<>> ELSE FilterText(o["Filters"][1]))
                              \o SP \o SizeText(size), SubscribeMalformed(o))
  ELSE IF t \in {9, 11} THEN fb \o SP \o pid \o SP \o SizeText(size)
  ELSE IF t = 10 THEN fb \o SP \o pid \o <<44, 32>> \o (IF Len(o["Filters"]) = 0 THEN TxtNoFiltersBang ELSE o["Filters"][1])
                      \o <<44, 32>> \o SizeText(size)
  ELSE IF t = 14 THEN WithReason(fb \o SP \o SizeText(size), o["ReasonCode"], o["ReasonString"])
  ELSE fb \o SP \o SizeText(size)
=============================================================================
