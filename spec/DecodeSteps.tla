---------------------------- MODULE DecodeSteps ----------------------------
(***************************************************************************)
(* The decoder's guarded sequential reader as a step machine: the work     *)
(* bound behind C05.                                                       *)
(*                                                                         *)
(* Every packet decoder of the library reads its frame through one         *)
(* primitive, get (buffer.get): when an error is already recorded it does  *)
(* nothing; at the end of the data it records "missing data"; otherwise    *)
(* the field decoder either fails (error recorded, offset unchanged) or    *)
(* succeeds and the offset advances by the field's width, never past the   *)
(* end.  A decoder is a straight-line prefix of at most Fixed gets, then   *)
(* loops (property section, filter / reason-code lists) that repeat get    *)
(* until the offset reaches a limit or an error is recorded.               *)
(*                                                                         *)
(* TLC explores every outcome of every get for every frame length up to    *)
(* MaxLen and every loop shape, and checks                                 *)
(*    WorkBound    steps <= 2 * len + Fixed + 2 * Loops                    *)
(*    Termination  every decode reaches "done"                             *)
(* The bound enforced on the real code through hook H2 (4 * len + 64       *)
(* guarded reads, harness/mqdrive/hooks.go) is implied by WorkBound for    *)
(* Fixed <= 16, Loops <= 3, which covers all 15 packet layouts (CONNECT:   *)
(* 11 fixed gets, 2 property loops; SUBSCRIBE: 1 + property loop + filter  *)
(* loop with two gets per turn).                                           *)
(*                                                                         *)
(* The loop rule "leave on error" is what the two fix: commits 71a8492     *)
(* (filter loops) established; with LeaveOnError = FALSE the model shows   *)
(* the non-termination TLC-side (Termination violated).                    *)
(***************************************************************************)
EXTENDS Integers

CONSTANTS MaxLen,         \* frame lengths 0..MaxLen
          Fixed,          \* straight-line gets before / between loops
          Loops,          \* number of loops
          LeaveOnError    \* loops stop when an error is recorded (the repaired library); FALSE = the pinned defect

VARIABLES len, i, err, steps, pc, fixedLeft, loopsLeft, lim, inTurn

vars == <<len, i, err, steps, pc, fixedLeft, loopsLeft, lim, inTurn>>

Init == /\ len \in 0..MaxLen /\ i = 0 /\ err = FALSE /\ steps = 0
        /\ pc = "fixed" /\ fixedLeft \in 0..Fixed /\ loopsLeft \in 0..Loops /\ lim = 0 /\ inTurn = 0

(* one guarded read: the three outcomes of buffer.get *)
Get == /\ steps' = steps + 1
       /\ IF err THEN UNCHANGED <<i, err>>
          ELSE IF i >= len THEN err' = TRUE /\ UNCHANGED i
          ELSE \/ err' = TRUE /\ UNCHANGED i                               \* the field decoder fails
               \/ \E w \in 1..(len - i) : i' = i + w /\ UNCHANGED err      \* succeeds, advances within the data

FixedGet == /\ pc = "fixed" /\ fixedLeft > 0
            /\ Get /\ fixedLeft' = fixedLeft - 1
            /\ UNCHANGED <<len, pc, loopsLeft, lim, inTurn>>

(* enter a loop: its limit is any offset from here to the end (a declared property length, or the end of the frame) *)
EnterLoop == /\ pc = "fixed" /\ fixedLeft = 0 /\ loopsLeft > 0
             /\ pc' = "loop" /\ loopsLeft' = loopsLeft - 1
             /\ lim' \in i..len /\ inTurn' = 0
             /\ UNCHANGED <<len, i, err, steps, fixedLeft>>

(* a loop turn is one or two gets (identifier + value, filter + options) *)
LoopGet == /\ pc = "loop"
           /\ (i < lim /\ (~err \/ ~LeaveOnError)) \/ inTurn = 1
           /\ Get
           /\ inTurn' = IF inTurn = 0 THEN (IF i < len /\ ~err THEN 1 ELSE 0) ELSE 0
           /\ UNCHANGED <<len, pc, fixedLeft, loopsLeft, lim>>

LeaveLoop == /\ pc = "loop" /\ inTurn = 0
             /\ i >= lim \/ (err /\ LeaveOnError)
             /\ pc' = "fixed" /\ fixedLeft' \in 0..1
             /\ UNCHANGED <<len, i, err, steps, loopsLeft, lim, inTurn>>

Finish == /\ pc = "fixed" /\ fixedLeft = 0 /\ loopsLeft = 0
          /\ pc' = "done" /\ UNCHANGED <<len, i, err, steps, fixedLeft, loopsLeft, lim, inTurn>>

Next == FixedGet \/ EnterLoop \/ LoopGet \/ LeaveLoop \/ Finish
Spec == Init /\ [][Next]_vars /\ WF_vars(Next)

WorkBound == steps <= 2 * len + Fixed + 2 * Loops + Loops
OffsetInData == i >= 0 /\ i <= len
ErrorIsSticky == [][err => err' /\ i' = i]_vars
Termination == <>(pc = "done")
MaxSteps(n) == 4 * n + 64                                  \* the budget enforced behind hook H2
BudgetImplied == steps <= MaxSteps(len)
=============================================================================
