----------------------------- MODULE MC_Stream -----------------------------
(***************************************************************************)
(* Model-checks the reader side of StreamIO: one ReadPacket call against   *)
(* every transport behaviour the io.Reader contract allows, for every      *)
(* request policy that cannot over-read.  Design-level: shows that the     *)
(* rules the trace specification enforces on the real code are consistent  *)
(* (a conforming implementation exists for every schedule: no deadlock     *)
(* before "done") and imply the properties C06 - C08 state.                *)
(***************************************************************************)
EXTENDS StreamIO

CONSTANTS MaxZeros            \* how many (0, nil) reads the transport may insert

VARIABLES zeros, result

Frames == { <<192, 0>>, <<64, 2, 0, 1>>, <<32, 3, 0, 0, 0>>, <<48, 5, 0, 1, 97, 0, 122>>,
            <<64, 130, 0, 1, 2>>,                   \* non-minimal two-byte remaining length
            <<240, 255, 255, 255, 255, 1>> }        \* remaining length beyond four bytes
Trailers == { <<>>, <<208, 0>> }

mvars == <<wire, limit, fate, with, pos, rp, zeros, result>>

Init == /\ wire \in {f \o tr : f \in Frames, tr \in Trailers}
        /\ limit \in 0..Len(wire)
        /\ fate \in {"eof", "E"} /\ with \in BOOLEAN
        /\ pos = 0 /\ rp = Idle /\ zeros = 0 /\ result = [res |-> "none"]

Call == RP_Call /\ rp.st = "idle" /\ UNCHANGED <<zeros, result>>
Read == \E m \in 1..Len(wire) : RP_Read(m) /\ UNCHANGED <<zeros, result>>
Ret == \E n \in 0..Len(wire), e \in {"nil", "eof", "E"} :
          /\ T_Return(n, e)
          /\ (n = 0 /\ e = "nil" => zeros < MaxZeros)
          /\ zeros' = IF n = 0 /\ e = "nil" THEN zeros + 1 ELSE zeros
          /\ UNCHANGED result
Return == \E res \in {"pkt", "err"}, isE \in BOOLEAN, isEOF \in BOOLEAN :
            /\ RP_Return(res, isE, isEOF)
            /\ result' = [res |-> res, isE |-> isE, isEOF |-> isEOF]
            /\ UNCHANGED zeros

Next == Call \/ Read \/ Ret \/ Return
Spec == Init /\ [][Next]_mvars /\ WF_mvars(Next) /\ SF_mvars(Return)   \* an implementation that may return again and again eventually does

Done == rp.st = "done"

(* C06: never more than the frame; consumption = what the call obtained *)
Safety == NeverOverRead /\ ConsumedIsGot /\ DeliveredWithinLimit

(* C07/C08: a packet only when every byte of the frame was obtained *)
PacketOnlyIfComplete == Done /\ result.res = "pkt" => Complete(Got)
(* C08: a fault inside the frame is reported, with its cause *)
FaultReported == Done /\ ~Complete(Got) => /\ result.res = "err"
                                           /\ (rp.fault = "E" /\ ~Header(Got).bad => result.isE)   \* bytes that begin no frame owe nothing to C08
                                           /\ (rp.fault = "eof" /\ rp.got = 0 => result.isEOF)
(* C07: without a transport failure the call ends only with the whole frame (or a hopeless length field) *)
NoGivingUp == Done /\ rp.fault = "nil" => Complete(Got) \/ Header(Got).bad
(* the rules never leave a conforming implementation without a move *)
NotStuck == ~Done => ENABLED Next
Termination == <>Done
=============================================================================
