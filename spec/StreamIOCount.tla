------------------------------ MODULE StreamIOCount ------------------------------
(***************************************************************************)
(* Integer-only abstraction of StreamIO (lengths instead of bytes) with an  *)
(* inductive invariant, so that the reader rules are proved by Apalache for *)
(* EVERY header length 2..5, remaining length 0..268435455 and chunking,    *)
(* not only the bounded instances MC_Stream explores.                       *)
(*   H header length, R remaining length, avail bytes the transport will    *)
(*   still deliver, fate what comes after them, got bytes obtained, req the *)
(*   outstanding request, pc run/wait/done, res the result.                 *)
(***************************************************************************)
EXTENDS Integers
\* Count abstraction of ReadPacket against an adversarial io.Reader (Apalache, ~7 s per obligation):
\*   apalache-mc check --init=Init   --inv=IndInv --length=0 StreamIOCount.tla
\*   apalache-mc check --init=IndInv --inv=IndInv --length=1 StreamIOCount.tla
\*   apalache-mc check --init=IndInv --inv=Safe   --length=0 StreamIOCount.tla
VARIABLES
  \* @type: Int;
  H,
  \* @type: Int;
  R,
  \* @type: Int;
  avail,
  \* @type: Str;
  fate,
  \* @type: Int;
  got,
  \* @type: Int;
  req,
  \* @type: Str;
  pc,
  \* @type: Str;
  res

L == H + R
Need == IF got = 0 THEN 2 ELSE IF got < H THEN 1 ELSE L - got

Init == /\ H \in 2..5 /\ R \in 0..268435455 /\ (H = 2 => R < 128)
        /\ avail \in 0..(L + 10) /\ fate \in {"eof", "err", "none"}
        /\ (fate = "none" => avail >= L)
        /\ got = 0 /\ req = 0 /\ pc = "run" /\ res = ""

Read == /\ pc = "run" /\ got < L
        /\ \E m \in 1..268435460 : m <= Need /\ req' = m
        /\ pc' = "wait" /\ UNCHANGED <<H, R, avail, fate, got, res>>

Ret == /\ pc = "wait"
       /\ \E n \in 0..268435460 :
            /\ n <= req /\ n <= avail
            /\ \E withFate \in BOOLEAN :
                 /\ (withFate => (n = avail /\ fate # "none"))
                 /\ (n = 0 /\ avail > 0 => ~withFate)
                 /\ (n = 0 /\ avail = 0 => withFate)
                 /\ got' = got + n /\ avail' = avail - n /\ req' = 0
                 /\ IF got + n = L THEN pc' = "done" /\ res' = "pkt"
                    ELSE IF withFate THEN pc' = "done" /\ res' = (IF fate = "eof" THEN "errEOF" ELSE "errE")
                    ELSE pc' = "run" /\ res' = res
       /\ UNCHANGED <<H, R, fate>>

Next == Read \/ Ret

TypeOK == /\ H \in 2..5 /\ R \in 0..268435455 /\ avail \in 0..268435470 /\ fate \in {"eof", "err", "none"}
          /\ got \in 0..268435460 /\ req \in 0..268435460 /\ pc \in {"run", "wait", "done"} /\ res \in {"", "pkt", "errEOF", "errE"}

IndInv == /\ TypeOK
          /\ got <= L
          /\ (pc = "wait" => req >= 1 /\ got + req <= L)
          /\ (pc # "wait" => req = 0)
          /\ (pc = "run" => res = "" /\ got < L)
          /\ (pc = "wait" => res = "")
          /\ (pc = "done" => res # "")
          /\ (res = "pkt" => got = L)
          /\ (res \in {"errEOF", "errE"} => got < L /\ avail = 0)
          /\ (fate = "none" => avail + got >= L)
          /\ (res = "errEOF" => fate = "eof") /\ (res = "errE" => fate = "err")
Safe == /\ got <= L
        /\ (res = "pkt" => got = L)
        /\ (res = "errEOF" => fate = "eof") /\ (res = "errE" => fate = "err")
====
