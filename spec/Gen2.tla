-------------------------------- MODULE Gen2 --------------------------------
(***************************************************************************)
(* More generators (same scheme as Gen.tla): well-formedness grids (C17),  *)
(* first bytes (C16), rendered bytes (C19), faulting writers (C10),        *)
(* delivery schedules (C07), stream faults (C08), frame sequences (C06),   *)
(* ownership histories (C14), credential pairs (C18).                      *)
(***************************************************************************)
EXTENDS Gen, MQLibText

(***************************************************************************)
(* corpus of short frames with every kind of verdict                       *)
(***************************************************************************)
ShortFrames ==
  { <<32, 3, 0, 0, 0>>,                         \* CONNACK
    <<32, 6, 1, 0, 3, 33, 0, 20>>,              \* CONNACK session present, receive max
    <<64, 2, 0, 1>>,                            \* PUBACK short form
    <<64, 3, 0, 1, 16>>,                        \* PUBACK reason only
    <<80, 4, 0, 1, 128, 0>>,                    \* PUBREC
    <<98, 2, 0, 9>>,                            \* PUBREL
    <<48, 5, 0, 1, 97, 0, 122>>,                \* PUBLISH qos 0 with payload
    <<50, 6, 0, 1, 97, 0, 7, 0>>,               \* PUBLISH qos 1
    <<130, 7, 0, 1, 0, 0, 1, 97, 1>>,           \* SUBSCRIBE
    <<144, 4, 0, 1, 0, 1>>,                     \* SUBACK
    <<162, 6, 0, 1, 0, 0, 1, 97>>,              \* UNSUBSCRIBE
    <<176, 4, 0, 1, 0, 17>>,                    \* UNSUBACK
    <<192, 0>>, <<208, 0>>,                     \* PINGREQ PINGRESP
    <<224, 0>>, <<224, 1, 129>>, <<224, 2, 0, 0>>,   \* DISCONNECT forms
    <<240, 0>>, <<240, 2, 24, 0>>,              \* AUTH
    <<16, 13, 0, 4, 77, 81, 84, 84, 5, 2, 0, 60, 0, 0, 0>>,   \* CONNECT
    <<0, 2, 7, 7>>,                             \* type 0
    <<64, 1, 0>>,                               \* must reject: cut inside the packet identifier
    <<32, 3, 0, 0, 128>>,                       \* must reject: property length ends on a continuation byte
    <<32, 5, 0, 0, 2, 37, 2>>,                  \* must reject: boolean 2
    <<32, 4, 0, 0, 1, 4>>,                      \* must reject: undefined identifier
    <<32, 5, 0, 0, 2, 36, 2>>,                  \* either: maximum QoS 2
    <<66, 2, 0, 1>>,                            \* either: reserved header flags
    <<192, 128, 0>>, <<224, 128, 128, 0>>, <<64, 130, 0, 0, 1>> }   \* either: remaining length not in its minimal form

FramesUpTo(n) == {f \in ShortFrames : Delimited(f) /\ Len(f) <= n}

(* all compositions of n into positive parts *)
RECURSIVE Compositions(_)
Compositions(n) == IF n = 0 THEN {<<>>}
                   ELSE UNION {{<<first>> \o rest : rest \in Compositions(n - first)} : first \in 1..n}

(* a composition with a (0, nil) read inserted before part i (i in 1..Len) for each i in zs *)
RECURSIVE WithZeros(_, _, _)
WithZeros(comp, zs, i) ==
  IF i > Len(comp) THEN <<>>
  ELSE (IF i \in zs THEN <<0>> ELSE <<>>) \o <<comp[i]>> \o WithZeros(comp, zs, i + 1)

ReadSteps(h, bytes, plan) ==
  << [op |-> "Stream", stream |-> 1, bytes |-> bytes, reader |-> plan],
     [op |-> "ReadPacket", h |-> h, stream |-> 1] >>

Contig(bytes) == << [op |-> "Stream", stream |-> 1, bytes |-> bytes], [op |-> "ReadPacket", h |-> 1, stream |-> 1] >>

RECURSIVE FlattenSteps(_)
FlattenSteps(ss) == IF ss = <<>> THEN <<>> ELSE Head(ss) \o FlattenSteps(Tail(ss))

(* family "sched": (frame, first part) -> all schedules starting with that part *)
MaxSched == IF Thorough THEN 10 ELSE 7
(* short frames of the packet types of this process, by the reference encoder *)
EncodedUpTo(n, k) == UNION { {Encode(p) : p \in Sample({q \in WirePkts(t) : Len(Encode(q)) <= n}, k)} : t \in TYPES }
SchedFrames == (IF 1 \in TYPES THEN FramesUpTo(MaxSched) ELSE {}) \cup EncodedUpTo(MaxSched, IF Thorough THEN 40 ELSE 4)
SchedCases ==
  UNION { {[kind |-> "sched", f |-> f, first |-> a] : a \in 1..Len(f)} : f \in SchedFrames }

SchedPlans(f, a) ==
  LET n == Len(f)
      comps == {<<a>> \o rest : rest \in Compositions(n - a)}
      plain == {[chunks |-> cmp, fate |-> "eof", with |-> w] : cmp \in comps, w \in BOOLEAN}
      zeros == UNION {{[chunks |-> WithZeros(cmp, zs, 1), fate |-> "eof", with |-> FALSE] :
                         zs \in {s \in SUBSET (1..Len(cmp)) : Cardinality(s) \in 1..2}} :
                      cmp \in {x \in comps : Len(x) <= 3}}
  IN plain \cup zeros

(* long frames (two- and three-byte remaining length): chosen splits, one byte at a time for the head, zero-length reads *)
BigFrame(n) == <<48>> \o VBI(n + 6) \o <<0, 3, 97, 47, 98, 0>> \o Bin(n)          \* PUBLISH a/b with n payload bytes
BigLens == IF Thorough THEN {130, 5000, 20000, 70000} ELSE {130, 5000}
BigPlans(len, hl) ==
  LET splits == {1, 2, hl - 1, hl, hl + 1, hl + 6, hl + 7, len \div 2, 4096 + hl, len - 1} \cap (1..(len - 1))
      two == {<<a, len - a>> : a \in splits}
      three == {<<a, b, len - a - b>> : a \in {1, hl}, b \in {1, 7, len \div 3}}
      ones == {[i \in 1..(hl + 8) |-> 1] \o <<len - hl - 8>>}
      comps == two \cup three \cup ones
  IN {[chunks |-> cmp, fate |-> "eof", with |-> w] : cmp \in comps, w \in BOOLEAN}
     \cup {[chunks |-> WithZeros(cmp, zs, 1), fate |-> "eof", with |-> FALSE] :
            cmp \in two \cup three, zs \in {{1}, {2}, {1, 2}, {3}}}
SchedBigCases == IF 3 \in TYPES THEN {[kind |-> "schedbig", n |-> n] : n \in BigLens} \cup (IF Thorough THEN {[kind |-> "schedhuge", n |-> 1052672]} ELSE {}) ELSE {}
SchedHugeProg(x) ==
  LET f == BigFrame(x.n)
      head == Len(f) - 4096
      tail == FlattenSteps([i \in 1..128 |-> <<0, 32>>])
      plans == << [chunks |-> <<head>> \o tail, fate |-> "eof", with |-> FALSE],
                  [chunks |-> <<1, 0, 0, head - 1>> \o tail, fate |-> "eof", with |-> TRUE] >> IN
  [fam |-> "sched", meta |-> [len |-> Len(f), huge |-> TRUE],
   steps |-> Contig(f) \o FlattenSteps([i \in 1..Len(plans) |-> <<[op |-> "Stream", stream |-> 1, bytes |-> f, reader |-> plans[i]],
                                                                    [op |-> "ReadPacket", h |-> 2, stream |-> 1]>>])]
SchedBigProg(x) ==
  LET f == BigFrame(x.n)
      plans == SetToSeq(BigPlans(Len(f), Len(f) - x.n - 6)) IN
  [fam |-> "sched", meta |-> [len |-> Len(f), big |-> TRUE, n |-> Len(plans)],
   steps |-> Contig(f) \o FlattenSteps([i \in 1..Len(plans) |-> <<[op |-> "Stream", stream |-> 1, bytes |-> f, reader |-> plans[i]],
                                                                    [op |-> "ReadPacket", h |-> 2, stream |-> 1]>>])]

FaultBigCases == IF 3 \in TYPES THEN {[kind |-> "faultbig", n |-> n, few |-> FALSE] : n \in BigLens}
                                     \cup {[kind |-> "faultbig", n |-> 70000, few |-> TRUE]}      \* above 64 KiB in every tier, few plans
                                     \cup (IF Thorough THEN {[kind |-> "faultbig", n |-> 1052672, few |-> TRUE]} ELSE {})   \* above 1 MiB
                                     \cup (IF Thorough THEN {[kind |-> "faultbig", n |-> 2097152, few |-> TRUE]} ELSE {})   \* four-byte remaining length
                 ELSE {}
FaultBigProg(x) ==
  LET f == BigFrame(x.n)
      hl == Len(f) - x.n - 6
      cuts == IF x.few /\ Len(f) > 2097152 THEN {Len(f) \div 2, Len(f) - 1}      \* (2 MiB: two cuts only, the events are large)
              ELSE IF x.few THEN {hl + 7, Len(f) \div 2, Len(f) - 1, Len(f)} \cup (IF Len(f) > 1048600 THEN {hl + 1048576, hl + 1048575} ELSE {})   \* (a mebibyte of body)
              ELSE {0, 1, 2, 3, hl - 1, hl, hl + 1, hl + 5, hl + 6, hl + 7, Len(f) \div 2, Len(f) - 1, Len(f)} \cap (0..Len(f))
      plans == SetToSeq({[chunks |-> cmp, fate |-> ft, with |-> w, cut |-> cut] :
                           cut \in cuts, ft \in {"eof", "err"}, w \in (IF x.few THEN {FALSE} ELSE BOOLEAN),
                           cmp \in (IF x.few THEN {<<>>} ELSE {<<>>, <<1, 1, 1, 1>>})} ) IN
  [fam |-> "fault", meta |-> [len |-> Len(f), big |-> TRUE, n |-> Len(plans)],
   steps |-> FlattenSteps([i \in 1..Len(plans) |-> <<[op |-> "Stream", stream |-> 1, bytes |-> f, reader |-> plans[i]],
                                                      [op |-> "ReadPacket", h |-> 2, stream |-> 1]>>])]

SchedProg(x) ==
  LET plans == SetToSeq(SchedPlans(x.f, x.first)) IN
  [fam |-> "sched", meta |-> [len |-> Len(x.f), first |-> x.first, n |-> Len(plans)],
   steps |-> Contig(x.f) \o FlattenSteps([i \in 1..Len(plans) |-> ReadSteps(2, x.f, plans[i])])]

(* family "fault": (frame, cut offset) -> fates x with/next x fragmentations of the prefix *)
FaultFrames == (IF 1 \in TYPES THEN FramesUpTo(IF Thorough THEN 15 ELSE 9) ELSE {})
               \cup EncodedUpTo(IF Thorough THEN 40 ELSE 24, IF Thorough THEN 30 ELSE 4)
FaultCases ==
  UNION { {[kind |-> "fault", f |-> f, cut |-> cut] : cut \in 0..Len(f)} : f \in FaultFrames }

FaultPlans(f, cut) ==
  LET comps == IF cut <= (IF Thorough THEN 8 ELSE 5) THEN Compositions(cut)
               ELSE {<<cut>>, [i \in 1..cut |-> 1], <<1, cut - 1>>, <<cut - 1, 1>>}
      \* zero-length reads on the way to the cut: before the first byte, before the second, behind the fixed header
      zeros == IF cut >= 2 THEN {<<0, cut>>, <<1, 0, cut - 1>>, <<1, 0, 0, cut - 1>>} \cup (IF cut >= 3 THEN {<<2, 0, cut - 2>>} ELSE {}) ELSE {}
  IN {[chunks |-> cmp, fate |-> ft, with |-> w, cut |-> cut] :
        cmp \in comps, ft \in {"eof", "err"}, w \in (IF cut = 0 THEN {FALSE} ELSE BOOLEAN)}
     \cup {[chunks |-> cmp, fate |-> ft, with |-> FALSE, cut |-> cut] : cmp \in zeros, ft \in {"eof", "err"}}

FaultProg(x) ==
  LET plans == SetToSeq(FaultPlans(x.f, x.cut))
      \* the same cut with ReadPacket reading from a *bufio.Reader on top of the transport
      buffered == {[chunks |-> <<>>, fate |-> ft, with |-> w, cut |-> x.cut] : ft \in {"eof", "err"}, w \in BOOLEAN}
      bplans == SetToSeq(buffered) IN
  [fam |-> "fault", meta |-> [len |-> Len(x.f), cut |-> x.cut, n |-> Len(plans)],
   steps |-> FlattenSteps([i \in 1..Len(plans) |-> ReadSteps(2, x.f, plans[i])])
             \o FlattenSteps([i \in 1..Len(bplans) |-> <<[op |-> "Stream", stream |-> 1, bytes |-> x.f \o <<208, 0>>, reader |-> bplans[i], key |-> "bufio"],
                                                           [op |-> "ReadPacket", h |-> 3, stream |-> 1], [op |-> "ReadPacket", h |-> 4, stream |-> 1]>>])]

(* family "seq": sequences of frames followed by trailing bytes, read by successive calls *)
(* the same bodies under type nibbles whose layout is empty or optional: a decoder must still take the announced bytes *)
Retyped == {<<b>> \o Tail(f) : b \in {0, 192, 208, 224, 240}, f \in {x \in ShortFrames : Framed(x) /\ Len(x) \in 3..7}}
SeqBase == {f \in ShortFrames : Len(f) <= 9}
           \cup {<<64, 6, 0, 7, 0, 2, 11, 99>>, <<50, 8, 0, 1, 97, 0, 7, 2, 11, 5>>, <<0, 3, 9, 8, 7>>}   \* accepted foreign id; PUBLISH with one; type 0
SeqFrames == SeqBase \cup (IF Thorough THEN Retyped ELSE {})
Trailers == {<<>>, <<48>>, <<64, 2, 0>>, <<255, 255, 255, 255, 255, 1>>}
SeqCases ==
  {[kind |-> "seq", fs |-> fs, tr |-> tr, with |-> FALSE] :
     fs \in UNION {[1..n -> SeqFrames] : n \in 1..2} \cup (IF Thorough THEN [1..3 -> SeqBase] ELSE {}), tr \in Trailers}     \* (triples over the base
                                                                                                  \* frames only: the set of cases stays below TLC's limit of 10^6)
  \cup {[kind |-> "seq", fs |-> <<a, b>>, tr |-> tr, with |-> w] :          \* retyped frame first / last; EOF with the last bytes
         a \in Retyped \cup SeqFrames, b \in {<<192, 0>>, <<64, 2, 0, 1>>, <<224, 0>>}, tr \in {<<>>, <<48>>}, w \in BOOLEAN}
  \cup {[kind |-> "seq", fs |-> <<b, a>>, tr |-> <<>>, with |-> TRUE] :
         a \in {<<192, 0>>, <<208, 0>>, <<224, 0>>, <<240, 0>>, <<64, 2, 0, 1>>}, b \in SeqFrames}

(* long streams: one frame kept in hand while many further frames are read from the same stream (a returned packet must  *)
(* neither change nor grow, whatever is read later)                                                                 *)
SeqLongCases == {[kind |-> "seqlong", first |-> a, rest |-> b, n |-> n] :
                   a \in {<<50, 8, 0, 1, 97, 0, 7, 2, 11, 5>>, <<48, 5, 0, 1, 97, 0, 122>>, <<130, 7, 0, 1, 0, 0, 1, 97, 1>>,
                          <<144, 4, 0, 1, 0, 1>>, <<32, 3, 0, 0, 0>>, <<0, 2, 7, 7>>},
                   b \in {<<224, 4, 0, 2, 11, 9>>, <<64, 6, 0, 7, 0, 2, 11, 99>>, <<32, 5, 0, 0, 2, 11, 5>>,
                          <<176, 12, 0, 1, 7, 38, 0, 1, 107, 0, 1, 118, 17, 0>>, <<48, 5, 0, 1, 97, 0, 122>>},
                   n \in (IF Thorough THEN {40, 300} ELSE {40})}
SeqLongProg(x) ==
  [fam |-> "seq", meta |-> [kind |-> x.kind, n |-> x.n],
   steps |-> <<[op |-> "Stream", stream |-> 1, bytes |-> x.first \o Concat([i \in 1..x.n |-> x.rest]), observe |-> "all"],
               [op |-> "ReadPacket", h |-> 1, stream |-> 1]>>
             \o [i \in 1..x.n |-> [op |-> "ReadPacket", h |-> 2 + (i % 3), stream |-> 1]]
             \o <<[op |-> "ReadPacket", h |-> 9, stream |-> 1], [op |-> "WriteTo", h |-> 1], [op |-> "Diag", h |-> 1]>>]

(* C07 for whole streams: a sequence of frames (rejected ones among them) delivered in one piece, then again one byte at a   *)
(* time, through bufio in one piece / in small pieces / with io.EOF on the last bytes: call by call the same outcome         *)
SeqSchedCases == {[kind |-> "seqsched", fs |-> <<a, b, c3>>] :
                    a \in {<<64, 1, 0>>, <<32, 5, 0, 0, 2, 37, 2>>, <<48, 5, 0, 1, 97, 0, 122>>, <<130, 7, 0, 1, 0, 0, 5, 97, 1>>, <<192, 2, 1, 2>>,
                           <<192, 128, 0>>, <<64, 130, 0, 0, 1>>, <<224, 129, 128, 0, 4>>},      \* remaining lengths not in their minimal form
                    b \in {<<192, 0>>, <<50, 6, 0, 1, 97, 0, 7, 0>>, <<64, 3, 0, 1, 16>>},
                    c3 \in {<<224, 0>>, <<32, 3, 0, 0, 0>>}}
SeqSchedProg(x) ==
  LET bytes == Concat(x.fs)
      n == Len(bytes)
      reads == [i \in 1..5 |-> [op |-> "ReadPacket", h |-> i, stream |-> 1]]
      deliver(plan, key) == <<IF key = "" THEN [op |-> "Stream", stream |-> 1, bytes |-> bytes, reader |-> plan]
                                           ELSE [op |-> "Stream", stream |-> 1, bytes |-> bytes, reader |-> plan, key |-> key]>> \o reads IN
  [fam |-> "sched", meta |-> [kind |-> x.kind],
   steps |-> <<[op |-> "Stream", stream |-> 1, bytes |-> bytes]>> \o reads
             \o deliver([chunks |-> [i \in 1..n |-> 1], fate |-> "eof", with |-> FALSE], "")
             \o deliver([chunks |-> <<>>, fate |-> "eof", with |-> FALSE], "bufio")
             \o deliver([chunks |-> [i \in 1..n |-> 1], fate |-> "eof", with |-> TRUE], "bufio")
             \o deliver([chunks |-> <<3, 0, 2>>, fate |-> "eof", with |-> TRUE], "bufio16")
             \o deliver([chunks |-> <<3>> \o [i \in 1..120 |-> 0] \o <<1>> \o [i \in 1..110 |-> 0], fate |-> "eof", with |-> FALSE], "bufio")   \* the transport stalls for long
             \o deliver([chunks |-> <<>>, fate |-> "eof", with |-> TRUE], "")
             \o deliver([chunks |-> <<>>, fate |-> "eof", with |-> FALSE], "bytes.Buffer")]

SeqHugeCases == IF Thorough THEN {[kind |-> "seqhuge", n |-> 1048580, with |-> w, tail |-> tl] : w \in BOOLEAN, tl \in BOOLEAN} ELSE {}
SeqHugeProg(x) ==      \* with: io.EOF comes together with the last bytes; ~tail: the long frame is the last of its stream
  [fam |-> "seq", meta |-> [kind |-> x.kind],
   steps |-> <<[op |-> "Stream", stream |-> 1, bytes |-> BigFrame(x.n) \o (IF x.tail THEN <<64, 2, 0, 7>> \o <<192, 0>> ELSE <<>>), observe |-> "all",
                reader |-> [chunks |-> <<>>, fate |-> "eof", with |-> x.with]],
               [op |-> "ReadPacket", h |-> 1, stream |-> 1], [op |-> "ReadPacket", h |-> 2, stream |-> 1],
               [op |-> "ReadPacket", h |-> 3, stream |-> 1], [op |-> "ReadPacket", h |-> 4, stream |-> 1]>>]
SeqProg(x) ==
  LET bytes == Concat(x.fs) \o x.tr
      nreads == Len(x.fs) + 2 IN
  [fam |-> "seq", meta |-> [n |-> Len(x.fs), tr |-> Len(x.tr)],
   steps |-> <<IF x.with THEN [op |-> "Stream", stream |-> 1, bytes |-> bytes, reader |-> [chunks |-> <<>>, fate |-> "eof", with |-> TRUE], observe |-> "all"]
                         ELSE [op |-> "Stream", stream |-> 1, bytes |-> bytes, observe |-> "all"]>>
             \o [i \in 1..nreads |-> [op |-> "ReadPacket", h |-> i, stream |-> 1]]]

(***************************************************************************)
(* family "first": all 256 first bytes x bodies that parse for the type    *)
(***************************************************************************)
BodiesFor(t) ==
  IF t = 0 THEN {<<>>, <<1, 2, 3>>}
  ELSE IF t = 1 THEN {<<0, 4, 77, 81, 84, 84, 5, 2, 0, 60, 0, 0, 0>>}
  ELSE IF t = 2 THEN {<<0, 0, 0>>, <<1, 0, 3, 33, 0, 20>>}
  ELSE IF t = 3 THEN {<<0, 1, 97, 0, 7, 0>>, <<0, 2, 97, 98, 0, 1, 0, 99, 100>>}     \* parse with and without a packet identifier
  ELSE IF t \in 4..7 THEN {<<0, 1>>, <<0, 1, 16>>, <<0, 1, 0, 0>>}
  ELSE IF t = 8 THEN {<<0, 1, 0, 0, 1, 97, 1>>}
  ELSE IF t \in {9, 11} THEN {<<0, 1, 0, 0>>, <<0, 1, 0, 1, 128>>}
  ELSE IF t = 10 THEN {<<0, 1, 0, 0, 1, 97>>}
  ELSE IF t \in {12, 13} THEN {<<>>}
  ELSE IF t = 14 THEN {<<>>, <<129>>, <<0, 0>>}
  ELSE {<<>>, <<24, 0>>}

FirstCases == {[kind |-> "first", b |-> b, body |-> body] : b \in {x \in 0..255 : x \div 16 \in TYPES \cup (IF 1 \in TYPES THEN {0} ELSE {})},
                                                            body \in UNION {BodiesFor(t) : t \in 0..15}}
FirstValid(x) == x.body \in BodiesFor(x.b \div 16)
FirstProg(x) ==
  LET f == <<x.b>> \o VBI(Len(x.body)) \o x.body IN
  [fam |-> "first", meta |-> [b |-> x.b],
   steps |-> << [op |-> "Stream", stream |-> 1, observe |-> "all",
                 bytes |-> f \o <<208, 0>> \o <<32, 3, 0, 0, 0>> \o <<(x.b \div 16) * 16 + (15 - (x.b % 16))>> \o VBI(Len(x.body)) \o x.body],
                [op |-> "ReadPacket", h |-> 1, stream |-> 1], [op |-> "Diag", h |-> 1],
                [op |-> "ReadPacket", h |-> 2, stream |-> 1], [op |-> "ReadPacket", h |-> 3, stream |-> 1],
                \* the same type again with the other flag bits, then the first packet written once more: still its own first byte
                [op |-> "ReadPacket", h |-> 8, stream |-> 1], [op |-> "WriteTo", h |-> 1],
                \* the same frame again, a zero-length read before its first byte and before its body
                [op |-> "Stream", stream |-> 1, bytes |-> f, reader |-> [chunks |-> <<0, 1, 0, 1, 0>>, fate |-> "eof", with |-> FALSE]],
                [op |-> "ReadPacket", h |-> 4, stream |-> 1],
                \* the frame as the second of a stream read through a *bufio.Reader; the transport pauses right after its fixed header
                [op |-> "Stream", stream |-> 1, bytes |-> <<192, 0>> \o f \o <<208, 0>>, key |-> "bufio",
                 reader |-> [chunks |-> <<2 + Len(f) - Len(x.body)>>, fate |-> "eof", with |-> FALSE]],
                [op |-> "ReadPacket", h |-> 5, stream |-> 1], [op |-> "ReadPacket", h |-> 6, stream |-> 1],
                [op |-> "ReadPacket", h |-> 7, stream |-> 1] >>]

(***************************************************************************)
(* family "wf": the grids of C17                                           *)
(***************************************************************************)
WfPublishCases ==
  {[kind |-> "wfpub", topic |-> tp, alias |-> al, qos |-> q, pid |-> pid, extra |-> ex] :
     tp \in {<<>>, Txt(2)}, al \in {0, 5}, q \in 0..3, pid \in {0, 9}, ex \in 0..(IF Thorough THEN 5 ELSE 2)}
WfPubProg(x) ==
  [fam |-> "wf", meta |-> [kind |-> x.kind],
   steps |-> <<[op |-> "New", h |-> 1, type |-> "Publish"],
               CallOp(1, "SetTopicName", <<x.topic>>), CallOp(1, "SetTopicAlias", <<x.alias>>),
               CallOp(1, "SetQoS", <<x.qos>>), CallOp(1, "SetPacketID", <<x.pid>>)>>
             \o (IF x.extra = 1 THEN <<CallOp(1, "SetRetain", <<TRUE>>), CallOp(1, "SetPayload", <<Bin(3)>>)>>
                 ELSE IF x.extra = 2 THEN <<CallOp(1, "SetDuplicate", <<TRUE>>), CallOp(1, "AddUserProp", <<Txt(1), Txt(1)>>)>>
                 ELSE IF x.extra = 3 THEN <<CallOp(1, "SetCorrelationData", <<Bin(2)>>)>>
                 ELSE IF x.extra = 4 THEN <<CallOp(1, "SetResponseTopic", <<Txt(2)>>), CallOp(1, "SetContentType", <<Txt(1)>>)>>
                 ELSE IF x.extra = 5 THEN <<CallOp(1, "AddSubscriptionID", <<<<0, 3>>>>), CallOp(1, "SetMessageExpiryInterval", <<<<0, 9>>>>)>>
                 ELSE <<>>)
             \o <<[op |-> "Diag", h |-> 1], [op |-> "WriteTo", h |-> 1], [op |-> "Stream", stream |-> 1, from |-> 1],
                  [op |-> "ReadPacket", h |-> 2, stream |-> 1], [op |-> "Diag", h |-> 2]>>]

SubIdChoices == {-1, 1, MaxVBI, MaxVBI + 1, 2147483647, -32, -3239, -62}      \* -k: the value 2^k, -3239: 2^32 + 39 (beyond TLC's integers,
                                                                               \* passed symbolically; every accessor value above 2^31 - 1 is logged as 2^31 - 1)
WfSubscribeCases ==
  {[kind |-> "wfsub", nf |-> nf, sid |-> sid, opt |-> opt, empty |-> em] :
     nf \in 0..3, sid \in SubIdChoices, opt \in (IF Thorough THEN 0..255 ELSE {0, 1, 2, 3, 7, 44, 63, 64, 128, 255}), em \in BOOLEAN}
  \cup {[kind |-> "wfsub", nf |-> 1, sid |-> -1, opt |-> opt, empty |-> em] : opt \in 0..255, em \in BOOLEAN}
WfSubProg(x) ==
  LET filt(i) == << IF x.empty /\ i = x.nf THEN <<>> ELSE Txt(2), IF i = x.nf THEN x.opt ELSE 1 >> IN
  [fam |-> "wf", meta |-> [kind |-> x.kind],
   steps |-> <<[op |-> "New", h |-> 1, type |-> "Subscribe"], CallOp(1, "SetPacketID", <<3>>)>>
             \o (IF x.sid < -1 THEN <<CallOp(1, "SetSubscriptionID", <<[pow |-> IF x.sid = -3239 THEN 32 ELSE 0 - x.sid, plus |-> IF x.sid = -3239 THEN 39 ELSE 0]>>)>>
                 ELSE IF x.sid # -1 THEN <<CallOp(1, "SetSubscriptionID", <<x.sid>>)>> ELSE <<>>)
             \o (IF x.nf > 0 THEN <<CallOp(1, "AddFilters", [i \in 1..x.nf |-> filt(i)])>> ELSE <<>>)
             \o <<[op |-> "Diag", h |-> 1]>>
             \o (IF x.sid >= -1 /\ x.sid <= MaxVBI /\ x.nf > 0
                 THEN <<[op |-> "WriteTo", h |-> 1], [op |-> "Stream", stream |-> 1, from |-> 1],
                        [op |-> "ReadPacket", h |-> 2, stream |-> 1], [op |-> "Diag", h |-> 2]>>
                 ELSE <<>>)]

(* a PUBLISH that is (also) the will of a CONNECT, and the will a decoded CONNECT hands out through Will(): the same rules *)
WfWillCases == {[kind |-> "wfwill", qos |-> q, pid |-> pid, topic |-> tp] : q \in 0..2, pid \in {0, 9}, tp \in {<<>>, Txt(2)}}
WfWillProg(x) ==
  [fam |-> "wf", meta |-> [kind |-> x.kind],
   steps |-> <<[op |-> "Pub", h |-> 2, args |-> <<x.qos, x.topic, Bin(2)>>], CallOp(2, "SetPacketID", <<x.pid>>), [op |-> "Diag", h |-> 2],
               [op |-> "New", h |-> 1, type |-> "Connect"], CallOp(1, "SetWill", <<[h |-> 2]>>), [op |-> "Diag", h |-> 2],
               [op |-> "WriteTo", h |-> 1], [op |-> "Stream", stream |-> 1, from |-> 1], [op |-> "ReadPacket", h |-> 3, stream |-> 1],
               [op |-> "Adopt", h |-> 4, from |-> 3, key |-> "Will"], [op |-> "Diag", h |-> 4],
               CallOp(4, "SetQoS", <<1>>), [op |-> "Diag", h |-> 4], CallOp(4, "SetPacketID", <<5>>), [op |-> "Diag", h |-> 4],
               [op |-> "Diag", h |-> 2]>>]
WfFilterCases == {[kind |-> "wffilter", opt |-> opt, empty |-> em] : opt \in 0..255, em \in BOOLEAN}
                 \cup {[kind |-> "wfspecial", sx |-> sx, opt |-> opt, pos |-> pos] : sx \in SpecialTexts, opt \in {0, 1, 3, 4, 5, 7, 12, 44, 60, 68}, pos \in 1..2}
WfSpecialProg(x) ==      \* a filter MQTT gives a meaning to, alone and as the second filter of a SUBSCRIBE, built and decoded
  [fam |-> "wf", meta |-> [kind |-> x.kind],
   steps |-> <<[op |-> "Filter", args |-> <<x.sx, x.opt>>],
               [op |-> "New", h |-> 1, type |-> "Subscribe"], CallOp(1, "SetPacketID", <<3>>),
               CallOp(1, "AddFilters", IF x.pos = 1 THEN << <<x.sx, x.opt>> >> ELSE << <<Txt(2), 1>>, <<x.sx, x.opt>> >>),
               [op |-> "Diag", h |-> 1], [op |-> "WriteTo", h |-> 1], [op |-> "Stream", stream |-> 1, from |-> 1],
               [op |-> "ReadPacket", h |-> 2, stream |-> 1], [op |-> "Diag", h |-> 2]>>]
WfFilterProg(x) == [fam |-> "wf", meta |-> [kind |-> x.kind],
                    steps |-> <<[op |-> "Filter", args |-> <<IF x.empty THEN <<>> ELSE Txt(3), x.opt>>]>>]

(* decoded PUBLISH with both QoS bits, decoded SUBSCRIBE with odd options *)
WfWireCases == {[kind |-> "wfwire", f |-> f] :
   f \in { <<54, 6, 0, 1, 97, 0, 7, 0>>, <<54, 5, 0, 0, 0, 7, 0>>, <<50, 6, 0, 1, 97, 0, 0, 0>>,
           <<48, 3, 0, 0, 0>>, <<48, 6, 0, 0, 3, 35, 0, 4>>, <<130, 7, 0, 1, 0, 0, 1, 97, 3>>,
           <<130, 6, 0, 1, 0, 0, 0, 1>>, <<130, 11, 0, 1, 0, 0, 1, 97, 0, 0, 1, 98, 255>> }}
WfWireProg(x) == ReadProg("wf", x.f, [kind |-> x.kind])

(***************************************************************************)
(* family "render": all 256 values of each rendered byte (C19)             *)
(***************************************************************************)
RenderCases ==
  {[kind |-> "rcode", t |-> t, b |-> b] : t \in {2, 4, 5, 6, 7, 14, 15}, b \in 0..255}
  \cup {[kind |-> "rcodes", t |-> t, b |-> b] : t \in {9, 11}, b \in 0..255}
  \cup {[kind |-> "cflags", b |-> b] : b \in 0..255}
  \cup {[kind |-> "aflags", b |-> b] : b \in 0..255}
  \cup {[kind |-> "zero", t |-> t] : t \in 0..15}
  \cup {[kind |-> "rname", t |-> t, b |-> b, sep |-> sep] : t \in {2, 4, 5, 6, 7, 14}, b \in KnownReasons \cup {3, 200}, sep \in 0..2}
RenderProg(x) ==
  IF x.kind = "rcode" THEN
     [fam |-> "diag", meta |-> [kind |-> x.kind], steps |-> <<[op |-> "New", h |-> 1, type |-> TypeName(x.t)],
        CallOp(1, "SetReasonCode", <<x.b>>), [op |-> "Diag", h |-> 1]>>]
  ELSE IF x.kind = "rname" THEN       \* the reason string is the name of the reason code (a server that logs code.String())
     LET name == IF x.b \in KnownReasons THEN ReasonText(x.b) ELSE TxtReasonCodeOpen \o <<50, 48, 48, 41>> IN
     [fam |-> "diag", meta |-> [kind |-> x.kind], steps |-> <<[op |-> "New", h |-> 1, type |-> TypeName(x.t)],
        CallOp(1, "SetReasonCode", <<x.b>>),
        CallOp(1, "SetReasonString", <<IF x.sep = 0 THEN name ELSE IF x.sep = 1 THEN name \o <<58>> ELSE name \o <<58, 32>> \o Txt(3)>>),
        [op |-> "Diag", h |-> 1], [op |-> "WriteTo", h |-> 1], [op |-> "Stream", stream |-> 1, from |-> 1],
        [op |-> "ReadPacket", h |-> 2, stream |-> 1], [op |-> "Diag", h |-> 2]>>]
  ELSE IF x.kind = "rcodes" THEN
     [fam |-> "diag", meta |-> [kind |-> x.kind], steps |-> <<[op |-> "New", h |-> 1, type |-> TypeName(x.t)],
        CallOp(1, "AddReasonCode", <<x.b>>), [op |-> "Diag", h |-> 1]>>]
  ELSE IF x.kind = "cflags" THEN       \* CONNECT with flags byte b and a payload long enough for any flag combination
     [fam |-> "diag", meta |-> [kind |-> x.kind], steps |->
        <<[op |-> "Stream", stream |-> 1, bytes |-> LET body == <<0, 4, 77, 81, 84, 84, 5, x.b, 0, 60, 0, 0, 1, 99, 0, 0, 1, 116, 0, 1, 112, 0, 1, 117, 0, 1, 119>> IN <<16, Len(body)>> \o body],
          [op |-> "ReadPacket", h |-> 1, stream |-> 1], [op |-> "Diag", h |-> 1]>>]
  ELSE IF x.kind = "aflags" THEN
     [fam |-> "diag", meta |-> [kind |-> x.kind], steps |->
        <<[op |-> "Stream", stream |-> 1, bytes |-> <<32, 3, x.b, 0, 0>>], [op |-> "ReadPacket", h |-> 1, stream |-> 1], [op |-> "Diag", h |-> 1]>>]
  ELSE [fam |-> "diag", meta |-> [kind |-> x.kind], steps |-> <<[op |-> "Zero", h |-> 1, type |-> TypeName(x.t)], [op |-> "Diag", h |-> 1]>>]

(***************************************************************************)
(* family "wfault": every k < L at which the writer stops accepting (C10)  *)
(***************************************************************************)
WFaultBase(t) == {p \in WirePkts(t) : Buildable(p) /\ Len(Encode(p)) <= (IF Thorough THEN 64 ELSE 40)}
WFaultCases == UNION { {[kind |-> "wfault", p |-> p] : p \in WFaultBase(t)} : t \in TYPES }
               \cup (IF 3 \in TYPES THEN {[kind |-> "wfaultbig", n |-> n] : n \in {127, 128, 1023, 1024, 5000, 70000}} ELSE {})
               \cup (IF 1 \in TYPES THEN {[kind |-> "wfaultbigc", n |-> n] : n \in {200, 5000}} ELSE {})
(* long frames: the writer stops at the first and last bytes, around the end of the header and of every kilobyte boundary *)
BigKs(len, hdrEnd) == {k \in {0, 1, 2, 3, 4, 5, 6, hdrEnd - 1, hdrEnd, hdrEnd + 1, hdrEnd + 2, len \div 2, 1023, 1024, 1025, 4096,
                               len - 2, len - 1} : k >= 0 /\ k < len}
WFaultBigProg(x) ==
  LET p == IF x.kind = "wfaultbig"
           THEN [t |-> 3, fl |-> 2, v |-> [TopicName |-> Txt(3), PacketID |-> 7, Props |-> <<PV(38, <<Txt(1), Txt(2)>>)>>, Payload |-> Bin(x.n)]]
           ELSE CHOOSE q \in ConnectPkts({TRUE}, {[w |-> TRUE, wq |-> 1, wr |-> FALSE]}, {TRUE}, {TRUE}, {60}, {<<PV(38, <<Txt(2), Txt(x.n)>>)>>},
                                         {<<PV(8, Txt(x.n))>>}, {Txt(3)}, {Bin(x.n)}) : TRUE
      f == Encode(p)
      ks == SetToSortSeq(BigKs(Len(f), Len(f) - (IF x.kind = "wfaultbig" THEN x.n ELSE 3 * x.n)), LAMBDA a, b : a < b) IN
  [fam |-> "wfault", meta |-> [t |-> p.t, len |-> Len(f), big |-> TRUE],
   steps |-> BuildOps(p) \o [i \in 1..Len(ks) |-> [op |-> "WriteTo", h |-> 1, writer |-> [kind |-> "fail", k |-> ks[i]]]]
             \o <<[op |-> "WriteTo", h |-> 1]>>]
WFaultProg(x) ==
  LET n == Len(Encode(x.p)) IN
  [fam |-> "wfault", meta |-> [t |-> x.p.t, len |-> n],
   steps |-> BuildOps(x.p) \o [k \in 1..n |-> [op |-> "WriteTo", h |-> 1, writer |-> [kind |-> "fail", k |-> k - 1]]]
             \o <<[op |-> "WriteTo", h |-> 1]>>]

(* packets that are constructible but not well formed, and Undefined *)
OddCases == {[kind |-> "odd", n |-> n] : n \in 1..8}
OddProg(x) ==
  LET body ==
    IF x.n = 1 THEN <<[op |-> "New", h |-> 1, type |-> "Publish"], CallOp(1, "SetQoS", <<3>>), CallOp(1, "SetTopicName", <<Txt(2)>>)>>
    ELSE IF x.n = 2 THEN <<[op |-> "New", h |-> 1, type |-> "Subscribe"]>>
    ELSE IF x.n = 3 THEN <<[op |-> "New", h |-> 1, type |-> "Unsubscribe"], CallOp(1, "SetPacketID", <<0>>)>>
    ELSE IF x.n = 4 THEN <<[op |-> "New", h |-> 1, type |-> "Publish"], CallOp(1, "SetQoS", <<1>>)>>
    ELSE IF x.n = 5 THEN <<[op |-> "New", h |-> 1, type |-> "SubAck"]>>
    ELSE IF x.n = 6 THEN <<[op |-> "New", h |-> 1, type |-> "Undefined"]>>
    ELSE IF x.n = 7 THEN <<[op |-> "Buf", buf |-> 1, bytes |-> <<1, 2, 3>>], [op |-> "Unmarshal", h |-> 1, type |-> "Undefined", buf |-> 1]>>
    ELSE <<[op |-> "New", h |-> 1, type |-> "Connect"], CallOp(1, "SetProtocolVersion", <<4>>)>>
  IN [fam |-> "wfault", meta |-> [odd |-> x.n],
      steps |-> body \o <<[op |-> "WriteTo", h |-> 1], [op |-> "WriteTo", h |-> 1, writer |-> [kind |-> "fail", k |-> 0]],
                          [op |-> "WriteTo", h |-> 1, writer |-> [kind |-> "fail", k |-> 1]]>>]

(***************************************************************************)
(* family "cred": pairs of CONNECT packets that differ only in the bytes   *)
(* of equally long credentials (C18)                                       *)
(***************************************************************************)
CredLens == IF Thorough THEN {1, 2, 9, 10, 255, 65535} ELSE {1, 9, 10, 255}
Fill(n, b) == [i \in 1..n |-> b]
CredShapes == {p \in ConnectPkts({TRUE}, {NoWill, [w |-> TRUE, wq |-> 1, wr |-> FALSE]}, {TRUE}, BOOLEAN, {60},
                                 FewPropSeqs(1), FewPropSeqs(WILLCTX), {Txt(3), <<>>}, {Bin(3), <<>>}) : TRUE}
CredCases ==
  {[kind |-> "cred", p |-> p, n |-> n, variant |-> vr, decoded |-> dc, reuse |-> FALSE, wk |-> 0] :
     p \in CredShapes, n \in CredLens, vr \in 1..8, dc \in BOOLEAN}
  \* relations between a secret and other fields, and secrets that begin like an authorisation scheme
  \cup {[kind |-> "cred", p |-> p, n |-> n, variant |-> vr, decoded |-> dc, reuse |-> FALSE, wk |-> 0] :
         p \in CredShapes, n \in {9, 40}, vr \in 9..13, dc \in BOOLEAN}
  \* the two CONNECT values are reused: a frame without credentials is decoded INTO each of them
  \cup {[kind |-> "cred", p |-> p, n |-> n, variant |-> vr, decoded |-> FALSE, reuse |-> TRUE, wk |-> 0] :
         p \in CredShapes, n \in {1, 9}, vr \in {1, 3}}
  \* wk > 0: before the diagnostics each packet is written to a writer that fails after wk bytes, and once to one that works
  \cup {[kind |-> "cred", p |-> p, n |-> n, variant |-> 1, decoded |-> FALSE, reuse |-> FALSE, wk |-> wk] :
         p \in CredShapes, n \in {9, 255}, wk \in {1, 10, 40}}
(* the two secrets of a pair; variants make a secret coincide with other field contents *)
SecretA(x) == IF x.variant = 1 THEN Fill(x.n, 65)
              ELSE IF x.variant = 2 THEN [i \in 1..x.n |-> Txt(3)[((i - 1) % 3) + 1]]        \* repeats the client identifier
              ELSE IF x.variant = 3 THEN Fill(x.n, 42)                                          \* the mask character
              ELSE IF x.variant = 7 THEN Fill(x.n, 32)                                          \* blank
              ELSE IF x.variant = 8 THEN Fill(x.n, 48)                                          \* zeros (digits)
              ELSE IF x.variant = 11 THEN [i \in 1..x.n |-> IF i <= 7 THEN <<66, 101, 97, 114, 101, 114, 32>>[i] ELSE 97 + (i % 26)]   \* "Bearer " ...
              ELSE IF x.variant = 12 THEN [i \in 1..x.n |-> IF i <= 6 THEN <<66, 97, 115, 105, 99, 32>>[i] ELSE 97 + (i % 26)]        \* "Basic " ...
              ELSE IF x.variant = 13 THEN [i \in 1..x.n |-> IF i = 1 THEN 36 ELSE IF i = x.n THEN 47 ELSE 97 + (i % 26)]               \* $ ... /
              ELSE [i \in 1..x.n |-> Txt(4)[((i - 1) % 4) + 1]]                                 \* repeats the will topic
SecretB(x) == IF x.variant \in 11..13 THEN [i \in 1..x.n |-> 98 + (i % 24)]           \* nothing of the scheme left
              ELSE [i \in 1..x.n |-> IF i = x.n THEN 90 ELSE SecretA(x)[i] + (IF i % 2 = 0 THEN 1 ELSE 0)]
CredOps(x, h, hw, su, sp) ==
  \* variant 5: a user property value equals the first secret; variant 6: the client identifier does (in BOTH packets)
  LET q0 == IF x.variant = 5 THEN [x.p EXCEPT !.v["Props"] = Append(@, PV(38, <<Txt(2), SecretA(x)>>))]
            ELSE IF x.variant = 6 THEN [x.p EXCEPT !.v["ClientID"] = SecretA(x)]
            ELSE IF x.variant = 9 THEN [x.p EXCEPT !.v["ClientID"] = SecretA(x) \o <<64, 120, 121>>]           \* client id = <secret>@xy
            ELSE IF x.variant = 10 THEN [x.p EXCEPT !.v["ClientID"] = <<120, 47>> \o SecretA(x)]               \* client id = x/<secret>
            ELSE x.p
      q == [q0 EXCEPT !.v["Username"] = su] IN
  LET q2 == IF "Password" \in DOMAIN q.v THEN [q EXCEPT !.v["Password"] = sp] ELSE q
      ops == BuildOps(q2) IN
  [i \in 1..Len(ops) |->
     LET s == ops[i]  nh == IF s.h = 1 THEN h ELSE hw IN
     IF s.op = "New" THEN [op |-> "New", h |-> nh, type |-> s.type]
     ELSE CallOp(nh, s.m, IF s.m = "SetWill" THEN <<[h |-> hw]>> ELSE s.args)]
CredProg(x) ==
  LET a == CredOps(x, 1, 2, SecretA(x), SecretA(x))
      b == CredOps(x, 3, 4, SecretB(x), SecretB(x)) IN
  [fam |-> "cred", meta |-> [n |-> x.n, variant |-> x.variant, decoded |-> x.decoded, reuse |-> x.reuse],
   steps |-> IF x.reuse
             THEN a \o b \o <<[op |-> "Buf", buf |-> 1, bytes |-> <<0, 4, 77, 81, 84, 84, 5, 2, 0, 60, 0, 0, 2, 105, 100>>],
                              [op |-> "Unmarshal", h |-> 1, buf |-> 1, key |-> "into"], [op |-> "Unmarshal", h |-> 3, buf |-> 1, key |-> "into"],
                              [op |-> "Diag", h |-> 1], [op |-> "Diag", h |-> 3], [op |-> "CmpDiag", hs |-> <<1, 3>>]>>
             ELSE IF x.wk > 0
             THEN a \o b \o <<[op |-> "WriteTo", h |-> 1, writer |-> [kind |-> "fail", k |-> x.wk]], [op |-> "Diag", h |-> 1],
                              [op |-> "WriteTo", h |-> 3, writer |-> [kind |-> "fail", k |-> x.wk]], [op |-> "Diag", h |-> 3],
                              [op |-> "CmpDiag", hs |-> <<1, 3>>],
                              [op |-> "WriteTo", h |-> 1], [op |-> "Diag", h |-> 1], [op |-> "WriteTo", h |-> 3], [op |-> "Diag", h |-> 3],
                              [op |-> "CmpDiag", hs |-> <<1, 3>>]>>
             ELSE IF ~x.decoded
             THEN a \o b \o <<[op |-> "Diag", h |-> 1], [op |-> "Diag", h |-> 3], [op |-> "CmpDiag", hs |-> <<1, 3>>]>>
             ELSE a \o b \o <<[op |-> "WriteTo", h |-> 1], [op |-> "Stream", stream |-> 1, from |-> 1], [op |-> "ReadPacket", h |-> 5, stream |-> 1],
                              [op |-> "WriteTo", h |-> 3], [op |-> "Stream", stream |-> 1, from |-> 3], [op |-> "ReadPacket", h |-> 6, stream |-> 1],
                              [op |-> "Diag", h |-> 5], [op |-> "Diag", h |-> 6], [op |-> "CmpDiag", hs |-> <<5, 6>>]>>]

(* one packet per type carrying every property it may carry (built explicitly: CHOOSE over a set of *)
(* packets would make TLC sort records whose fields are not comparable)                             *)
FullPkt(t) ==
  LET ps == Asc(Allowed(t)) IN
  IF t = 1 THEN CHOOSE p \in ConnectPkts({TRUE}, {[w |-> TRUE, wq |-> 1, wr |-> TRUE]}, {TRUE}, {TRUE}, {300},
                                          {ps}, {Asc(Allowed(WILLCTX))}, {Txt(3)}, {Bin(3)}) : TRUE
  ELSE IF t = 2 THEN [t |-> 2, fl |-> 0, v |-> [AckFlags |-> 1, ReasonCode |-> 0, Props |-> ps]]
  ELSE IF t = 3 THEN [t |-> 3, fl |-> 11, v |-> [TopicName |-> Txt(3), PacketID |-> 7, Props |-> ps, Payload |-> Bin(5)]]
  ELSE IF t \in 4..7 THEN [t |-> t, fl |-> IF t = 6 THEN 2 ELSE 0, v |-> [PacketID |-> 7, ReasonCode |-> 128, Props |-> ps]]
  ELSE IF t = 8 THEN [t |-> 8, fl |-> 2, v |-> [PacketID |-> 7, Props |-> ps, Filters |-> << <<Txt(3), 1>>, <<Txt(1), 2>> >>]]
  ELSE IF t \in {9, 11} THEN [t |-> t, fl |-> 0, v |-> [PacketID |-> 7, Props |-> ps, ReasonCodes |-> <<1, 128>>]]
  ELSE IF t = 10 THEN [t |-> 10, fl |-> 2, v |-> [PacketID |-> 7, Props |-> ps, Filters |-> <<Txt(3), Txt(1)>>]]
  ELSE IF t \in {12, 13} THEN [t |-> t, fl |-> 0, v |-> EmptyFn]
  ELSE [t |-> t, fl |-> 0, v |-> [ReasonCode |-> IF t = 14 THEN 142 ELSE 24, Props |-> ps]]
(***************************************************************************)
(* family "own": decoded packets own their memory; bystanders (C14)        *)
(***************************************************************************)
OwnFrames == {f \in ShortFrames : Framed(f) /\ Verdict(f).kind = "accept"} \cup
             { <<0, 3, 1, 2, 3>>, <<48, 16, 0, 1, 97, 12, 9, 0, 2, 1, 2, 38, 0, 1, 107, 0, 1, 118>>,       \* PUBLISH correlation data + user property, no payload
               <<48, 9, 0, 1, 97, 0, 1, 2, 3, 4, 5>>,
               <<16, 29, 0, 4, 77, 81, 84, 84, 5, 196, 0, 60, 0, 0, 1, 99, 0, 0, 1, 116, 0, 2, 7, 8, 0, 1, 117, 0, 2, 1, 2>>,
               <<240, 9, 24, 7, 21, 0, 1, 109, 22, 0, 0>> \o <<>> }
BodyOf(f) == LET d == DecVBI(f, 2, Len(f), Len(f), FALSE) IN SubSeq(f, d.next, Len(f))
(* CONNECT bodies whose protocol name differs from the constructor's default (decoded leniently by the library) *)
OddConnects == { <<16, 13, 0, 4, 77, 81, 84, 88, 5, 2, 0, 60, 0, 0, 0>>, <<16, 11, 0, 2, 77, 81, 4, 2, 0, 60, 0, 0, 0>>,
                 <<16, 27, 0, 4, 77, 81, 84, 84, 5, 4, 0, 60, 0, 0, 1, 99, 0, 0, 1, 116, 0, 7, 72, 69, 76, 76, 79, 33, 33>> }
ForeignOK == { <<64, 6, 0, 7, 0, 2, 11, 99>>,                    \* PUBACK carrying a subscription identifier
               <<32, 5, 0, 0, 2, 11, 5>>, <<224, 4, 0, 2, 11, 9>> }
OwnCases ==
  {[kind |-> "own", a |-> a, b |-> b, mode |-> md] : a \in OwnFrames, b \in OwnFrames \cup ForeignOK, md \in 1..3}
  \cup {[kind |-> "own", a |-> a, b |-> b, mode |-> md] : a \in OwnFrames, b \in {<<192, 0>>}, md \in 4..5}
  \cup {[kind |-> "ownall", a |-> a, t |-> t] : a \in OwnFrames, t \in 0..15}
  \cup {[kind |-> "owninto", a |-> a] : a \in OwnFrames \cup OddConnects}
  \* every packet type carrying all its fields, then a body that ends early decoded INTO it: what a failed decode leaves behind
  \cup {[kind |-> "ownintocut", t |-> t, n |-> n] : t \in 1..15, n \in {0, 1, 2, 3, 4, 6, 7, 8, 9, 11, 12, 14, 20}}
Renumber(ops, base) ==        \* BuildOps uses handles 1 (packet) and 2 (will): shift them
  [i \in 1..Len(ops) |-> LET s == ops[i] IN
     IF s.op = "New" THEN [op |-> "New", h |-> s.h + base, type |-> s.type]
     ELSE CallOp(s.h + base, s.m, IF s.m = "SetWill" THEN <<[h |-> 2 + base]>> ELSE s.args)]

OwnProg(x) ==
  IF x.kind = "ownintocut" THEN
     LET body == BodyOf(Encode(FullPkt(x.t)))
         cutb == SubSeq(body, 1, IF x.n < Len(body) THEN x.n ELSE Len(body)) IN
     [fam |-> "own", meta |-> [kind |-> x.kind, t |-> x.t],
      steps |-> <<[op |-> "Buf", buf |-> 1, bytes |-> cutb, observe |-> "all"]>>
                \o Renumber(BuildOps(FullPkt(x.t)), 0) \o Renumber(BuildOps(FullPkt(x.t)), 10)
                \o <<[op |-> "WriteTo", h |-> 11],
                     [op |-> "Unmarshal", h |-> 1, buf |-> 1, key |-> "into"], [op |-> "Diag", h |-> 1], [op |-> "WriteTo", h |-> 1],
                     [op |-> "WriteTo", h |-> 11], [op |-> "Diag", h |-> 11],
                     [op |-> "Unmarshal", h |-> 3, type |-> TypeName(x.t), buf |-> 1], [op |-> "Diag", h |-> 3]>>]
  ELSE IF x.kind = "owninto" THEN
     \* two packets of the frame's type built through the API (sharing whatever constructors share), a fresh one,
     \* then the frame's body decoded INTO the first: the others must not change
     LET t == x.a[1] \div 16  tn == TypeName(t) IN
     [fam |-> "own", meta |-> [kind |-> x.kind],
      steps |-> <<[op |-> "Buf", buf |-> 1, bytes |-> BodyOf(x.a), observe |-> "all"]>>
                \o (IF t \in 1..15 THEN Renumber(BuildOps(FullPkt(t)), 0) \o Renumber(BuildOps(FullPkt(t)), 10)
                    ELSE <<[op |-> "New", h |-> 1, type |-> tn], [op |-> "New", h |-> 11, type |-> tn]>>)
                \o <<[op |-> "New", h |-> 21, type |-> tn],
                     [op |-> "WriteTo", h |-> 11], [op |-> "WriteTo", h |-> 21],
                     [op |-> "Unmarshal", h |-> 1, buf |-> 1, key |-> "into"],
                     [op |-> "WriteTo", h |-> 11], [op |-> "WriteTo", h |-> 21],
                     [op |-> "Scribble", buf |-> 1],
                     [op |-> "WriteTo", h |-> 11], [op |-> "New", h |-> 22, type |-> tn], [op |-> "Diag", h |-> 22],
                     [op |-> "WriteTo", h |-> 22]>>]
  ELSE IF x.kind = "ownall" THEN            \* the body of a given to UnmarshalBinary of every type, then overwritten
     [fam |-> "own", meta |-> [kind |-> x.kind],
      steps |-> <<[op |-> "Buf", buf |-> 1, bytes |-> BodyOf(x.a), observe |-> "all"],
                  [op |-> "Unmarshal", h |-> 1, type |-> TypeName(x.t), buf |-> 1],
                  [op |-> "Scribble", buf |-> 1], [op |-> "Diag", h |-> 1]>>]
  ELSE LET ta == TypeName(x.a[1] \div 16) tb == TypeName(x.b[1] \div 16) IN
     [fam |-> "own", meta |-> [kind |-> x.kind, mode |-> x.mode],
      steps |->
        IF x.mode = 1 THEN       \* two direct decodes from one reused buffer
          <<[op |-> "Buf", buf |-> 1, bytes |-> BodyOf(x.a), observe |-> "all"],
            [op |-> "Unmarshal", h |-> 1, type |-> ta, buf |-> 1, key |-> "new"],
            [op |-> "Buf", buf |-> 1, bytes |-> BodyOf(x.b)],
            [op |-> "Unmarshal", h |-> 2, type |-> tb, buf |-> 1, key |-> "new"],
            [op |-> "Scribble", buf |-> 1], [op |-> "WriteTo", h |-> 1], [op |-> "Diag", h |-> 2]>>
        ELSE IF x.mode = 2 THEN  \* ReadPacket twice, modify the second, scribble slices of the first
          <<[op |-> "Stream", stream |-> 1, bytes |-> x.a \o x.b \o x.a, observe |-> "all"],
            [op |-> "ReadPacket", h |-> 1, stream |-> 1], [op |-> "ReadPacket", h |-> 2, stream |-> 1],
            [op |-> "ReadPacket", h |-> 3, stream |-> 1],
            [op |-> "ScribbleSlice", h |-> 2, key |-> "Payload"], [op |-> "ScribbleSlice", h |-> 2, key |-> "CorrelationData"],
            [op |-> "ScribbleSlice", h |-> 2, key |-> "AuthData"], [op |-> "ScribbleSlice", h |-> 2, key |-> "Password"],
            [op |-> "ScribbleSlice", h |-> 2, key |-> "Data"],
            [op |-> "WriteTo", h |-> 1], [op |-> "Diag", h |-> 3]>>
        ELSE IF x.mode = 5 THEN  \* the same frame decoded twice (ReadPacket and UnmarshalBinary), then both packets grow in turn through their adders
          LET t == x.a[1] \div 16
              adders(h, j) ==
                (IF t \in 1..11 \/ t \in {14, 15} THEN <<CallOp(h, "AddUserProp", <<Txt(1 + j), Txt(h)>>)>> ELSE <<>>)
                \o (IF t = 3 THEN <<CallOp(h, "AddSubscriptionID", <<<<0, 10 * h + j>>>>)>> ELSE <<>>)
                \o (IF t = 8 THEN <<CallOp(h, "AddFilters", << <<Txt(h + j), j % 3>> >>)>> ELSE <<>>)
                \o (IF t = 10 THEN <<CallOp(h, "AddFilter", <<Txt(h + j)>>)>> ELSE <<>>)
                \o (IF t \in {9, 11} THEN <<CallOp(h, "AddReasonCode", <<h + j>>)>> ELSE <<>>)
          IN <<[op |-> "Stream", stream |-> 1, bytes |-> x.a \o x.a, observe |-> "all"], [op |-> "ReadPacket", h |-> 1, stream |-> 1],
               [op |-> "ReadPacket", h |-> 2, stream |-> 1],
               [op |-> "Buf", buf |-> 1, bytes |-> BodyOf(x.a)], [op |-> "Unmarshal", h |-> 3, type |-> ta, buf |-> 1, key |-> "new"]>>
             \o adders(1, 1) \o adders(2, 1) \o adders(3, 1) \o adders(2, 2) \o adders(1, 2)
             \o <<[op |-> "WriteTo", h |-> 1], [op |-> "WriteTo", h |-> 2], [op |-> "WriteTo", h |-> 3], [op |-> "Diag", h |-> 1]>>
        ELSE IF x.mode = 4 THEN  \* a frame read, every slice its packet handed out overwritten by the caller, the same frame read again
          <<[op |-> "Stream", stream |-> 1, bytes |-> x.a, observe |-> "all"], [op |-> "ReadPacket", h |-> 1, stream |-> 1],
            [op |-> "ScribbleSlice", h |-> 1, key |-> "Payload"], [op |-> "ScribbleSlice", h |-> 1, key |-> "CorrelationData"],
            [op |-> "ScribbleSlice", h |-> 1, key |-> "AuthData"], [op |-> "ScribbleSlice", h |-> 1, key |-> "Password"],
            [op |-> "ScribbleSlice", h |-> 1, key |-> "Data"],
            [op |-> "Stream", stream |-> 2, bytes |-> x.a], [op |-> "ReadPacket", h |-> 2, stream |-> 2], [op |-> "Diag", h |-> 2],
            [op |-> "Buf", buf |-> 1, bytes |-> BodyOf(x.a)], [op |-> "Unmarshal", h |-> 3, type |-> ta, buf |-> 1, key |-> "new"],
            [op |-> "WriteTo", h |-> 3]>>
        ELSE                     \* a fresh packet built next to decoded ones
          <<[op |-> "New", h |-> 1, type |-> ta, observe |-> "all"], [op |-> "New", h |-> 2, type |-> ta],
            [op |-> "Buf", buf |-> 1, bytes |-> BodyOf(x.a)],
            [op |-> "Unmarshal", h |-> 1, type |-> ta, buf |-> 1, key |-> "new"],
            [op |-> "Stream", stream |-> 1, bytes |-> x.b], [op |-> "ReadPacket", h |-> 3, stream |-> 1],
            [op |-> "Scribble", buf |-> 1], [op |-> "WriteTo", h |-> 2], [op |-> "Diag", h |-> 1]>>]

(***************************************************************************)
(* family "vbi": boundary values and short byte sequences through hook H1  *)
(***************************************************************************)
VbiCenters == {0, 128, 16384, 2097152, MaxVBI}
VbiValues == UNION {{x \in (cn - 300)..(cn + 300) : x >= 0 /\ x <= MaxVBI} : cn \in VbiCenters}
             \cup UNION {{2 ^ j - 1, 2 ^ j, 2 ^ j + 1} \cap (0..MaxVBI) : j \in 0..28}
VbiAlphabet == {0, 1, 127, 128, 129, 255}
VbiSeqs(n) == [1..n -> VbiAlphabet]
VbiCases ==
  {[kind |-> "vbienc", lo |-> lo] : lo \in {x \in VbiValues : x % 64 = 0} \cup {0}}
  \cup UNION {{[kind |-> "vbidec", s |-> s] : s \in VbiSeqs(n)} : n \in 1..(IF Thorough THEN 5 ELSE 4)}
  \cup {[kind |-> "vbidec", s |-> <<128 + (a % 128), 128 + b, 128 + (a \div 128), 255, f5>>] : a \in {0, 1, 16383}, b \in {0, 127}, f5 \in {0, 1, 127, 128, 255}}
VbiProg(x) ==
  IF x.kind = "vbienc"
  THEN [fam |-> "vbi", meta |-> [kind |-> x.kind],
        steps |-> <<[op |-> "VBI", key |-> "enc", bytes |-> SetToSortSeq({v \in VbiValues : v >= x.lo /\ v < x.lo + 64}, LAMBDA a, b : a < b)]>>]
  ELSE [fam |-> "vbi", meta |-> [kind |-> x.kind], steps |-> <<[op |-> "VBI", key |-> "dec", bytes |-> x.s]>>]

(* the subscription identifier and the remaining length through the public API *)
(* the remaining length as it arrives on a stream: a frame whose remaining length takes 2 / 3 bytes, as the second frame of a  *)
(* stream, the transport pausing after each byte of the length field; plain, through bufio, and with io.EOF on the last bytes *)
VbiStreamCases == {[kind |-> "vbistream", n |-> n, pause |-> ps, key |-> ky] :
                     n \in {122, 130, 16377, 16378, 20000}, ps \in 1..3, ky \in {"", "bufio", "bufio16"}}
VbiStreamProg(x) ==
  LET f == BigFrame(x.n)
      bytes == <<192, 0>> \o f \o <<208, 0>>
      plan == [chunks |-> <<2 + x.pause>>, fate |-> "eof", with |-> TRUE] IN
  [fam |-> "vbi", meta |-> [kind |-> x.kind, n |-> x.n],
   steps |-> <<IF x.key = "" THEN [op |-> "Stream", stream |-> 1, bytes |-> bytes, reader |-> plan]
                          ELSE [op |-> "Stream", stream |-> 1, bytes |-> bytes, reader |-> plan, key |-> x.key],
               [op |-> "ReadPacket", h |-> 1, stream |-> 1], [op |-> "ReadPacket", h |-> 2, stream |-> 1],
               [op |-> "ReadPacket", h |-> 3, stream |-> 1], [op |-> "ReadPacket", h |-> 4, stream |-> 1]>>]

VbiApiCases == {[kind |-> "vbiapi", v |-> v] : v \in {1, 127, 128, 16383, 16384, 2097151, 2097152, MaxVBI}}
VbiApiProg(x) ==
  [fam |-> "vbi", meta |-> [kind |-> x.kind],
   steps |-> <<[op |-> "New", h |-> 1, type |-> "Subscribe"], CallOp(1, "SetPacketID", <<1>>), CallOp(1, "SetSubscriptionID", <<x.v>>),
               CallOp(1, "AddFilters", << <<Txt(1), 0>> >>), [op |-> "WriteTo", h |-> 1], [op |-> "Stream", stream |-> 1, from |-> 1],
               [op |-> "ReadPacket", h |-> 2, stream |-> 1],
               [op |-> "New", h |-> 3, type |-> "Publish"], CallOp(3, "SetTopicName", <<Txt(1)>>), CallOp(3, "AddSubscriptionID", <<Pair32(x.v)>>),
               CallOp(3, "SetPayload", <<Bin(IF x.v <= 2097152 THEN x.v ELSE 5)>>),
               [op |-> "WriteTo", h |-> 3], [op |-> "Stream", stream |-> 1, from |-> 3], [op |-> "ReadPacket", h |-> 4, stream |-> 1]>>]

(***************************************************************************)
(* family "conc": configurations of concurrent read-only operations (C13)  *)
(***************************************************************************)
ROps == <<"WriteTo", "String", "Dump", "WellFormed", "Accessors", "ReadPacket">>
ConcBase(t) == FullPkt(t)
ConcCases ==
  {[kind |-> "conc", t |-> t, a |-> a, b |-> b, cc |-> cc, pre |-> pre] :
     t \in TYPES, a \in 1..6, b \in 1..6, cc \in (IF Thorough THEN 0..6 ELSE {0}), pre \in BOOLEAN}
(* goroutines reading different frames from private streams, among them reserved type 0 with different bodies *)
ConcFrameSets == { << <<0, 3, 97, 97, 97>>, <<0, 5, 99, 99, 99, 99, 99>>, <<0, 2, 7, 7>> >>,
                   << <<32, 6, 1, 0, 3, 33, 0, 20>>, <<32, 3, 0, 0, 0>>, <<0, 1, 9>> >>,
                   << <<48, 5, 0, 1, 97, 0, 122>>, <<50, 6, 0, 1, 97, 0, 7, 0>>, <<64, 2, 0, 1>>, <<224, 0>> >> }
ConcFrameCases == IF 1 \in TYPES THEN {[kind |-> "concframes", fs |-> fs, after |-> af] : fs \in ConcFrameSets, af \in 0..2}
                                        \cup {[kind |-> "concpool", j |-> j] : j \in 1..3} \cup {[kind |-> "concmalformed", j |-> j] : j \in 1..3}
                                        \cup {[kind |-> "concwill", j |-> j] : j \in 1..3}
                  ELSE {}
(* a PUBLISH decoded earlier stays in use (written, inspected) while other goroutines decode frames that carry a *)
(* subscription identifier where MQTT allows none                                                               *)
ConcPoolProg(x) ==
  [fam |-> "conc", meta |-> [kind |-> x.kind],
   steps |-> <<[op |-> "Stream", stream |-> 1, bytes |-> <<50, 8, 0, 1, 97, 0, 7, 2, 11, 5>>],
               [op |-> "ReadPacket", h |-> 1, stream |-> 1],
               [op |-> "Conc", hs |-> <<1>>, ops |-> IF x.j = 1 THEN <<"ReadFrame", "WriteTo", "Accessors", "ReadFrame">>
                                                   ELSE IF x.j = 2 THEN <<"WriteTo", "ReadFrame", "String", "ReadFrame">>
                                                   ELSE <<"ReadFrame", "Dump", "ReadFrame", "WriteTo">>,
                frames |-> << <<224, 4, 0, 2, 11, 7>>, <<64, 6, 0, 7, 0, 2, 11, 99>>, <<32, 5, 0, 0, 2, 11, 5>> >>,
                procs |-> 4, n |-> IF Thorough THEN 3000 ELSE 400]>>]
(* the error path under concurrency: malformed packets asked for WellFormed / String, truncated frames read, all at once *)
ConcMalformedProg(x) ==
  [fam |-> "conc", meta |-> [kind |-> x.kind],
   steps |-> <<[op |-> "New", h |-> 1, type |-> "Publish"], CallOp(1, "SetQoS", <<IF x.j = 1 THEN 1 ELSE 3>>),
               [op |-> "New", h |-> 2, type |-> "Subscribe"],
               [op |-> "Conc", hs |-> <<1, 2>>, ops |-> IF x.j = 3 THEN <<"ReadFrame", "ReadFrame", "WellFormed", "String">>
                                                      ELSE <<"WellFormed", "String", "ReadFrame", "ReadFrame">>,
                frames |-> << <<64, 1, 0>>, <<32, 6, 0, 0, 3, 17, 0, 0>>, <<130, 7, 0, 1, 0, 0, 5, 97, 1>>, <<48, 1, 0>> >>,
                procs |-> 4, n |-> IF Thorough THEN 2000 ELSE 300]>>]
(* after = 1, 2: before the goroutines start, streams that end / fail inside a frame body and inside a header were read *)
(* (whatever the error paths leave behind in shared state is there when the concurrent calls arrive)                    *)
FaultyReads(af) ==
  IF af = 0 THEN <<>>
  ELSE LET ft == IF af = 1 THEN "eof" ELSE "err" IN
       <<[op |-> "Stream", stream |-> 2, bytes |-> <<48, 12, 0, 1, 97, 0, 1, 2, 3, 4, 5, 6, 7, 8>>, reader |-> [chunks |-> <<>>, fate |-> ft, with |-> FALSE, cut |-> 9]],
         [op |-> "ReadPacket", h |-> 7, stream |-> 2],
         [op |-> "Stream", stream |-> 2, bytes |-> <<130, 9, 0, 1, 0, 0, 3, 97, 98, 99, 1>>, reader |-> [chunks |-> <<3, 3>>, fate |-> ft, with |-> TRUE, cut |-> 8]],
         [op |-> "ReadPacket", h |-> 7, stream |-> 2],
         [op |-> "Stream", stream |-> 2, bytes |-> <<16, 130, 1>>, reader |-> [chunks |-> <<>>, fate |-> ft, with |-> FALSE, cut |-> 2]],
         [op |-> "ReadPacket", h |-> 7, stream |-> 2],
         [op |-> "Stream", stream |-> 2, bytes |-> <<64, 3, 0>>], [op |-> "ReadPacket", h |-> 7, stream |-> 2]>>
(* a CONNECT whose will had an empty payload (j = 1), never got a payload (j = 2) or is a fresh PUBLISH (j = 3), used by several   *)
(* goroutines before anything was ever encoded: whatever the encoder fills in lazily, it must not write it into the shared packet *)
ConcWillProg(x) ==
  [fam |-> "conc", meta |-> [kind |-> x.kind],
   steps |-> <<[op |-> "New", h |-> 1, type |-> "Connect"], CallOp(1, "SetClientID", <<Txt(2)>>),
               IF x.j = 1 THEN [op |-> "Pub", h |-> 2, args |-> <<1, Txt(3), <<>>>>] ELSE [op |-> "New", h |-> 2, type |-> "Publish"]>>
             \o (IF x.j = 2 THEN <<CallOp(2, "SetTopicName", <<Txt(3)>>), CallOp(2, "SetQoS", <<1>>)>> ELSE <<>>)      \* (the payload is never set)
             \o <<CallOp(1, "SetWill", <<[h |-> 2]>>),
               [op |-> "Conc", hs |-> <<1>>, ops |-> <<"WriteTo", "String", "WriteTo", "Dump">>, procs |-> 4, n |-> IF Thorough THEN 2000 ELSE 300],
               [op |-> "WriteTo", h |-> 1]>>]
ConcFramesProg(x) ==
  [fam |-> "conc", meta |-> [kind |-> x.kind, after |-> x.after],
   steps |-> FaultyReads(x.after) \o <<[op |-> "New", h |-> 1, type |-> "PingReq"],
               [op |-> "Conc", hs |-> <<1>>, ops |-> <<"ReadFrame">>, frames |-> x.fs,
                procs |-> IF Thorough THEN 8 ELSE 4, n |-> IF Thorough THEN 5000 ELSE 500]>>]

ConcValid(x) == x.a <= x.b /\ (x.cc = 0 \/ x.b <= x.cc)
ConcProg(x) ==
  LET p == ConcBase(x.t)
      shared == x.t = 1 /\ "WillProps" \in DOMAIN p.v        \* the will PUBLISH (handle 2) is also used directly
      ops == <<ROps[x.a], ROps[x.b]>> \o (IF x.cc = 0 THEN <<>> ELSE <<ROps[x.cc]>>)
  IN [fam |-> "conc", meta |-> [t |-> x.t, ops |-> ops],
      \* pre: the packets are encoded once sequentially before the goroutines start (gives the expected bytes);
      \* ~pre: the first encoding ever happens concurrently, and a CONNECT's will is completed after SetWill
      steps |-> BuildOps(p)
                \o (IF ~x.pre /\ shared THEN <<CallOp(2, "SetPayload", <<Bin(7)>>), CallOp(2, "SetCorrelationData", <<Bin(2)>>),
                                               CallOp(2, "SetRetain", <<FALSE>>), CallOp(2, "SetQoS", <<2>>)>> ELSE <<>>)
                \o (IF x.pre THEN <<[op |-> "WriteTo", h |-> 1]>> ELSE <<>>)
                \o (IF x.pre /\ shared THEN <<[op |-> "WriteTo", h |-> 2]>> ELSE <<>>)
                \o <<[op |-> "Conc", hs |-> IF shared THEN <<1, 2, 1>> ELSE <<1>>, ops |-> ops,
                      procs |-> IF Thorough THEN 8 ELSE 4, n |-> IF Thorough THEN 2000 ELSE 200]>>
                \* (a will completed after SetWill is outside the record-of-fields model, D1: no accessor comparison there)
                \o (IF ~x.pre /\ shared THEN <<>> ELSE <<[op |-> "Diag", h |-> 1]>>)]

(***************************************************************************)
(* family "reuse": the caller keeps and reuses what it handed to a setter: *)
(* a TopicFilter value, a []TopicFilter passed with "...", the filter list *)
(* of a decoded SUBSCRIBE forwarded into new packets, a will attached      *)
(* again after being completed (C12, C14, C02)                             *)
(***************************************************************************)
RefCall(h, m, hs) == [op |-> "Call", h |-> h, m |-> m, args |-> [i \in 1..Len(hs) |-> [h |-> hs[i]]], refs |-> TRUE]
ReuseCases == {[kind |-> "reuse", n |-> n, k |-> k] : n \in 1..7, k \in 1..4}
Names == <<Txt(9), Txt(9), Txt(4), Txt(12), Txt(2)>>
Name(j, k) == [i \in 1..Len(Names[((j + k) % 5) + 1]) |-> Names[((j + k) % 5) + 1][i] + (IF i = Len(Names[((j + k) % 5) + 1]) THEN j ELSE 0)]
ReuseProg(x) ==
  [fam |-> "reuse", meta |-> [kind |-> x.kind, n |-> x.n, k |-> x.k],
   steps |->
     IF x.n = 1 THEN       \* one TopicFilter value renamed and added again, k + 1 times
        <<[op |-> "NewFilter", h |-> 5, args |-> <<Name(0, x.k), 1>>, observe |-> "all"], [op |-> "New", h |-> 1, type |-> "Subscribe"],
          CallOp(1, "SetPacketID", <<7>>)>>
        \o FlattenSteps([j \in 1..(x.k + 1) |-> <<CallOp(5, "SetFilter", <<Name(j, x.k)>>), CallOp(5, "SetOptions", <<j % 3>>), RefCall(1, "AddFilters", <<5>>)>>])
        \o <<CallOp(5, "SetFilter", <<Txt(1)>>), [op |-> "WriteTo", h |-> 1], [op |-> "Stream", stream |-> 1, from |-> 1],
             [op |-> "ReadPacket", h |-> 9, stream |-> 1]>>
     ELSE IF x.n = 2 THEN  \* a decoded SUBSCRIBE with k + 1 filters forwarded into two new packets, which then grow
        LET fs == [j \in 1..(x.k + 1) |-> <<Name(j, x.k), j % 3>>]
            f == Encode([t |-> 8, fl |-> 2, v |-> [PacketID |-> 3, Props |-> <<>>, Filters |-> fs]]) IN
        <<[op |-> "Stream", stream |-> 1, bytes |-> f, observe |-> "all"], [op |-> "ReadPacket", h |-> 1, stream |-> 1],
          [op |-> "New", h |-> 2, type |-> "Subscribe"], [op |-> "New", h |-> 3, type |-> "Subscribe"],
          [op |-> "CallSpread", h |-> 2, m |-> "AddFilters", from |-> 1, key |-> "Filters"],
          [op |-> "CallSpread", h |-> 3, m |-> "AddFilters", from |-> 1, key |-> "Filters"],
          CallOp(2, "AddFilters", << <<Txt(5), 1>> >>), CallOp(3, "AddFilters", << <<Txt(6), 2>> >>),
          CallOp(1, "AddFilters", << <<Txt(7), 0>> >>),
          CallOp(2, "SetPacketID", <<4>>), [op |-> "WriteTo", h |-> 2], [op |-> "WriteTo", h |-> 3], [op |-> "WriteTo", h |-> 1]>>
     ELSE IF x.n = 3 THEN  \* one scratch slice reused to build several packets
        <<[op |-> "Slice", h |-> 6, args |-> [j \in 1..x.k |-> <<Name(j, x.k), 1>>], observe |-> "all"],
          [op |-> "New", h |-> 1, type |-> "Subscribe"], [op |-> "CallSpread", h |-> 1, m |-> "AddFilters", from |-> 6, key |-> ""],
          [op |-> "SliceSet", h |-> 6, n |-> 0, args |-> << <<Txt(3), 2>> >>],
          [op |-> "New", h |-> 2, type |-> "Subscribe"], [op |-> "CallSpread", h |-> 2, m |-> "AddFilters", from |-> 6, key |-> ""],
          CallOp(1, "AddFilters", << <<Txt(8), 0>> >>), CallOp(2, "AddFilters", << <<Txt(6), 2>> >>),
          CallOp(1, "SetPacketID", <<1>>), CallOp(2, "SetPacketID", <<2>>),
          [op |-> "WriteTo", h |-> 1], [op |-> "Stream", stream |-> 1, from |-> 1], [op |-> "ReadPacket", h |-> 8, stream |-> 1],
          [op |-> "WriteTo", h |-> 2], [op |-> "Stream", stream |-> 1, from |-> 2], [op |-> "ReadPacket", h |-> 9, stream |-> 1],
          [op |-> "SliceSet", h |-> 6, n |-> x.k, args |-> << <<Txt(2), 1>> >>],
          [op |-> "WriteTo", h |-> 1], [op |-> "WriteTo", h |-> 2]>>
     ELSE IF x.n = 4 THEN  \* the same will attached again after it was completed; and replaced by another will
        <<[op |-> "New", h |-> 1, type |-> "Connect", observe |-> "all"], [op |-> "Pub", h |-> 2, args |-> <<x.k % 3, Txt(3), Bin(6)>>],
          CallOp(1, "SetWill", <<[h |-> 2]>>), CallOp(2, "SetPayload", <<Bin(x.k + 1)>>), CallOp(2, "SetQoS", <<(x.k + 1) % 3>>),
          CallOp(2, "SetRetain", <<x.k % 2 = 0>>), CallOp(1, "SetWill", <<[h |-> 2]>>),
          [op |-> "WriteTo", h |-> 1], [op |-> "Stream", stream |-> 1, from |-> 1], [op |-> "ReadPacket", h |-> 9, stream |-> 1],
          [op |-> "Pub", h |-> 3, args |-> <<(x.k + 2) % 3, Txt(2), <<>>>>], CallOp(1, "SetWill", <<[h |-> 3]>>),
          [op |-> "WriteTo", h |-> 1], [op |-> "Stream", stream |-> 1, from |-> 1], [op |-> "ReadPacket", h |-> 8, stream |-> 1]>>
     ELSE IF x.n = 6 THEN  \* setters called on the elements of the list Filters() returns, with String / WellFormed / WriteTo before and after
        <<[op |-> "New", h |-> 1, type |-> "Subscribe", observe |-> "all"], CallOp(1, "SetPacketID", <<7>>),
          CallOp(1, "AddFilters", [j \in 1..(x.k + 1) |-> <<Name(j, x.k), j % 3>>]),
          [op |-> "Diag", h |-> 1], [op |-> "WriteTo", h |-> 1],
          [op |-> "CallElem", h |-> 1, key |-> "Filters", n |-> 0, m |-> "SetFilter", args |-> <<Name(0, x.k) \o Txt(x.k + 3)>>],
          [op |-> "Diag", h |-> 1], [op |-> "WriteTo", h |-> 1],
          [op |-> "CallElem", h |-> 1, key |-> "Filters", n |-> x.k, m |-> "SetOptions", args |-> <<3>>],
          [op |-> "Diag", h |-> 1],
          [op |-> "CallElem", h |-> 1, key |-> "Filters", n |-> x.k, m |-> "SetOptions", args |-> <<1>>],
          [op |-> "CallElem", h |-> 1, key |-> "Filters", n |-> x.k % 2, m |-> "SetFilter", args |-> <<<<>>>>],
          [op |-> "Diag", h |-> 1],
          [op |-> "CallElem", h |-> 1, key |-> "Filters", n |-> x.k % 2, m |-> "SetFilter", args |-> <<Txt(2)>>],
          [op |-> "Diag", h |-> 1], [op |-> "WriteTo", h |-> 1], [op |-> "Stream", stream |-> 1, from |-> 1],
          [op |-> "ReadPacket", h |-> 9, stream |-> 1],
          [op |-> "CallElem", h |-> 9, key |-> "Filters", n |-> 0, m |-> "SetOptions", args |-> <<7>>], [op |-> "Diag", h |-> 9],
          [op |-> "WriteTo", h |-> 9]>>
     ELSE IF x.n = 7 THEN  \* a will completed after SetWill: String before the first write, then the write
        <<[op |-> "New", h |-> 1, type |-> "Connect", observe |-> "all"], [op |-> "Pub", h |-> 2, args |-> <<x.k % 3, Txt(3), Bin(6)>>],
          CallOp(1, "SetWill", <<[h |-> 2]>>), CallOp(2, "SetPayload", <<Bin(10 * x.k)>>),
          [op |-> "WriteTo", h |-> 1], [op |-> "Diag", h |-> 1], [op |-> "WriteTo", h |-> 1]>>
     ELSE                  \* byte slices handed to setters of two packets built next to each other
        <<[op |-> "New", h |-> 1, type |-> "Publish", observe |-> "all"], [op |-> "New", h |-> 2, type |-> "Publish"],
          CallOp(1, "SetTopicName", <<Name(1, x.k)>>), CallOp(2, "SetTopicName", <<Name(2, x.k)>>),
          CallOp(1, "SetResponseTopic", <<Name(3, x.k)>>), CallOp(2, "SetResponseTopic", <<Name(4, x.k)>>),
          CallOp(1, "SetContentType", <<Name(2, x.k)>>), CallOp(1, "SetContentType", <<Txt(2)>>),
          CallOp(2, "SetContentType", <<Name(1, x.k)>>),
          [op |-> "WriteTo", h |-> 1], [op |-> "WriteTo", h |-> 2]>>]

(***************************************************************************)
(* family "many": valid frames whose lists are long (C05: work and memory  *)
(* proportional to the frame; C03: still decoded exactly)                  *)
(***************************************************************************)
ManyNs == IF Thorough THEN {100, 1000, 10000} ELSE {100, 1000}
UPs(n) == [i \in 1..n |-> PV(38, <<<<107, 48 + (i % 10)>>, <<118>>>>)]
ManyCases == IF 1 \in TYPES THEN {[kind |-> "many", n |-> n, w |-> w] : n \in ManyNs, w \in 1..8} ELSE {}
ManyPkt(x) ==
  IF x.w = 1 THEN [t |-> 3, fl |-> 0, v |-> [TopicName |-> Txt(3), Props |-> UPs(x.n), Payload |-> Bin(4)]]
  ELSE IF x.w = 2 THEN [t |-> 14, fl |-> 0, v |-> [ReasonCode |-> 0, Props |-> UPs(x.n)]]
  ELSE IF x.w = 3 THEN [t |-> 8, fl |-> 2, v |-> [PacketID |-> 1, Props |-> UPs(x.n \div 10), Filters |-> [i \in 1..x.n |-> <<<<102, 48 + (i % 10)>>, i % 3>>]]]
  ELSE IF x.w = 4 THEN [t |-> 9, fl |-> 0, v |-> [PacketID |-> 1, Props |-> <<>>, ReasonCodes |-> [i \in 1..x.n |-> i % 3]]]
  ELSE IF x.w = 5 THEN [t |-> 3, fl |-> 0, v |-> [TopicName |-> Txt(3), Props |-> [i \in 1..x.n |-> PV(11, 1 + (i % 100))], Payload |-> <<>>]]
  ELSE IF x.w \in {7, 8} THEN      \* CONNECT: the user properties of the will (7) / of the packet (8)
       [t |-> 1, fl |-> 0, v |-> [ProtocolName |-> MQTTName, ProtocolVersion |-> 5, ConnectFlags |-> 4 + 2, KeepAlive |-> 10,
                                  Props |-> IF x.w = 8 THEN UPs(x.n) ELSE <<>>, ClientID |-> Txt(2),
                                  WillProps |-> IF x.w = 7 THEN UPs(x.n) ELSE <<>>, WillTopic |-> Txt(3), WillPayload |-> <<>>]]
  ELSE [t |-> 10, fl |-> 2, v |-> [PacketID |-> 1, Props |-> <<>>, Filters |-> [i \in 1..x.n |-> <<102, 48 + (i % 10)>>]]]
ManyProg(x) == ReadProg("many", Encode(ManyPkt(x)), [kind |-> x.kind, n |-> x.n, w |-> x.w])

(***************************************************************************)
Cases2 ==
  IF FAMILY = "sched" THEN SchedCases \cup SchedBigCases \cup (IF 1 \in TYPES THEN SeqSchedCases ELSE {})
  ELSE IF FAMILY = "fault" THEN FaultCases \cup FaultBigCases
  ELSE IF FAMILY = "seq" THEN SeqCases \cup SeqHugeCases \cup SeqLongCases
  ELSE IF FAMILY = "seqlong" THEN SeqLongCases
  ELSE IF FAMILY = "huge" THEN SeqHugeCases          \* a frame above 1 MiB followed by two more on the same stream (thorough tier only)
  ELSE IF FAMILY = "first" THEN {x \in FirstCases : FirstValid(x)}
  ELSE IF FAMILY = "wf" THEN WfPublishCases \cup WfSubscribeCases \cup WfFilterCases \cup WfWireCases \cup WfWillCases
  ELSE IF FAMILY = "render" THEN RenderCases
  ELSE IF FAMILY = "wfault" THEN WFaultCases \cup (IF 1 \in TYPES THEN OddCases ELSE {})
  ELSE IF FAMILY = "cred" THEN CredCases
  ELSE IF FAMILY = "own" THEN OwnCases
  ELSE IF FAMILY = "reuse" THEN ReuseCases
  ELSE IF FAMILY = "many" THEN ManyCases
  ELSE IF FAMILY = "vbi" THEN VbiCases \cup VbiApiCases \cup VbiStreamCases
  ELSE IF FAMILY = "conc" THEN {x \in ConcCases : ConcValid(x)} \cup ConcFrameCases
  ELSE Cases

Init2 == c \in Cases2 /\ pool = EmptyFn

ProgOf2(x) ==
  IF x.kind = "sched" THEN SchedProg(x)
  ELSE IF x.kind = "schedbig" THEN SchedBigProg(x)
  ELSE IF x.kind = "schedhuge" THEN SchedHugeProg(x)
  ELSE IF x.kind = "faultbig" THEN FaultBigProg(x)
  ELSE IF x.kind = "fault" THEN FaultProg(x)
  ELSE IF x.kind = "seq" THEN SeqProg(x)
  ELSE IF x.kind = "seqhuge" THEN SeqHugeProg(x)
  ELSE IF x.kind = "seqlong" THEN SeqLongProg(x)
  ELSE IF x.kind = "seqsched" THEN SeqSchedProg(x)
  ELSE IF x.kind = "first" THEN FirstProg(x)
  ELSE IF x.kind = "wfpub" THEN WfPubProg(x)
  ELSE IF x.kind = "wfsub" THEN WfSubProg(x)
  ELSE IF x.kind = "wffilter" THEN WfFilterProg(x)
  ELSE IF x.kind = "wfspecial" THEN WfSpecialProg(x)
  ELSE IF x.kind = "wfwire" THEN WfWireProg(x)
  ELSE IF x.kind = "wfwill" THEN WfWillProg(x)
  ELSE IF x.kind \in {"rcode", "rcodes", "cflags", "aflags", "zero", "rname"} THEN RenderProg(x)
  ELSE IF x.kind = "wfault" THEN WFaultProg(x)
  ELSE IF x.kind \in {"wfaultbig", "wfaultbigc"} THEN WFaultBigProg(x)
  ELSE IF x.kind = "odd" THEN OddProg(x)
  ELSE IF x.kind = "cred" THEN CredProg(x)
  ELSE IF x.kind \in {"own", "ownall", "owninto", "ownintocut"} THEN OwnProg(x)
  ELSE IF x.kind \in {"vbienc", "vbidec"} THEN VbiProg(x)
  ELSE IF x.kind = "vbiapi" THEN VbiApiProg(x)
  ELSE IF x.kind = "vbistream" THEN VbiStreamProg(x)
  ELSE IF x.kind = "reuse" THEN ReuseProg(x)
  ELSE IF x.kind = "many" THEN ManyProg(x)
  ELSE IF x.kind = "conc" THEN ConcProg(x)
  ELSE IF x.kind = "concframes" THEN ConcFramesProg(x)
  ELSE IF x.kind = "concpool" THEN ConcPoolProg(x)
  ELSE IF x.kind = "concmalformed" THEN ConcMalformedProg(x)
  ELSE IF x.kind = "concwill" THEN ConcWillProg(x)
  ELSE ProgOf(x)

Theorems2 ==
  IF c.kind \in {"frame", "build", "cut", "undef", "bool", "prefix", "rlfifth", "vbi5", "badsubid", "foreign", "dupprop", "badutf8", "dupbad", "badtext", "lenpm"} THEN Theorems
  ELSE IF c.kind = "cred" THEN Len(SecretA(c)) = Len(SecretB(c)) /\ SecretA(c) # SecretB(c)
  ELSE IF c.kind = "vbienc" THEN \A v \in {y \in VbiValues : y >= c.lo /\ y < c.lo + 64} :
                                   /\ VBI(v) = VBI4(v) /\ Len(VBI(v)) = VBILen(v)
                                   /\ LET r == VBIRead(VBI(v)) IN r.kind = "value" /\ r.val = v /\ r.minimal /\ r.width = VBILen(v)
  ELSE TRUE

Emit2 == PrintT(<<"PROG", ToJson(ProgOf2(c))>>)
=============================================================================
