------------------------------ MODULE WriteIOCount ------------------------------
(***************************************************************************)
(* Integer-only abstraction of WriteIO (lengths instead of bytes) with an   *)
(* inductive invariant, so that the writer rules are proved by Apalache for *)
(* EVERY frame length up to the MQTT maximum, every writer limit K and      *)
(* every way of splitting the frame over Write calls, not only the bounded  *)
(* instances MC_Write explores.                                             *)
(*   F frame length, K bytes the writer accepts in total, off bytes offered *)
(*   so far (completed calls), acc bytes accepted, req the outstanding      *)
(*   request, werr the writer has reported E, pc run/wait/done, n / rerr    *)
(*   what WriteTo returned.                                                 *)
(***************************************************************************)
EXTENDS Integers
\* apalache-mc check --init=Init   --inv=IndInv --length=0 WriteIOCount.tla
\* apalache-mc check --init=IndInv --inv=IndInv --length=1 WriteIOCount.tla
\* apalache-mc check --init=IndInv --inv=Safe   --length=0 WriteIOCount.tla
VARIABLES
  \* @type: Int;
  F,
  \* @type: Int;
  K,
  \* @type: Int;
  off,
  \* @type: Int;
  acc,
  \* @type: Int;
  req,
  \* @type: Bool;
  werr,
  \* @type: Str;
  pc,
  \* @type: Int;
  n,
  \* @type: Str;
  rerr

MaxF == 268435460

Init == /\ F \in 2..MaxF /\ K \in 0..(MaxF + 5)
        /\ off = 0 /\ acc = 0 /\ req = 0 /\ werr = FALSE /\ pc = "run" /\ n = 0 /\ rerr = ""

(* the implementation offers the next m unwritten bytes; never after an error *)
Write == /\ pc = "run" /\ ~werr /\ off < F
         /\ \E m \in 1..MaxF : m <= F - off /\ req' = m
         /\ pc' = "wait" /\ UNCHANGED <<F, K, off, acc, werr, n, rerr>>

(* the writer answers within the io.Writer contract: all of it, or less together with E *)
Ret == /\ pc = "wait"
       /\ LET room == K - acc IN
          IF room >= req
          THEN acc' = acc + req /\ werr' = FALSE
          ELSE acc' = acc + (IF room > 0 THEN room ELSE 0) /\ werr' = TRUE
       /\ off' = off + req /\ req' = 0 /\ pc' = "run"
       /\ UNCHANGED <<F, K, n, rerr>>

(* what WriteTo owes *)
Return == /\ pc = "run"
          /\ \/ ~werr /\ off = F /\ n' = F /\ rerr' = "nil"
             \/ werr /\ n' = acc /\ rerr' = "E"
          /\ pc' = "done" /\ UNCHANGED <<F, K, off, acc, req, werr>>

Next == Write \/ Ret \/ Return

TypeOK == /\ F \in 2..MaxF /\ K \in 0..(MaxF + 5) /\ off \in 0..MaxF /\ acc \in 0..MaxF /\ req \in 0..MaxF
          /\ werr \in BOOLEAN /\ pc \in {"run", "wait", "done"} /\ n \in 0..MaxF /\ rerr \in {"", "nil", "E"}

IndInv == /\ TypeOK
          /\ acc <= off /\ off <= F /\ acc <= K
          /\ (pc = "wait" => req >= 1 /\ off + req <= F /\ ~werr)
          /\ (pc # "wait" => req = 0)
          /\ (~werr => acc = off)                       \* nothing was refused so far
          /\ (werr => acc < off /\ acc = K)              \* the writer stopped exactly at its limit
          /\ (pc = "done" <=> rerr # "")
          /\ (rerr = "nil" => ~werr /\ off = F /\ n = F)
          /\ (rerr = "E" => werr /\ n = acc)

(* C10: a nil error means the whole frame was accepted and counted; an error comes with the accepted count, short of the frame *)
Safe == /\ (rerr = "nil" => n = F /\ acc = F)
        /\ (rerr = "E" => n = acc /\ n < F /\ n = K)
        /\ off <= F
====
