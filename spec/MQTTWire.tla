------------------------------ MODULE MQTTWire ------------------------------
(***************************************************************************)
(* The MQTT v5.0 control-packet grammar (OASIS mqtt-v5.0-os, sections 2    *)
(* and 3) as data, with a reference encoder, a strict reference decoder,   *)
(* the field map of a frame and the verdict a decoder owes to an arbitrary *)
(* byte string.  Written from the OASIS text; shares nothing with the      *)
(* library under verification.                                             *)
(*                                                                         *)
(* An abstract wire packet is  [t |-> 0..15, fl |-> 0..15, v |-> fields]   *)
(* where v maps the field names of Layout(t) that are present in the frame *)
(* to their values.  Short forms (PUBACK of remaining length 2 or 3,       *)
(* DISCONNECT of length 0 or 1, ...) are packets whose optional trailing   *)
(* fields are absent from DOMAIN v; property sections are sequences of     *)
(* <<id, val>> in wire order, so order, explicit zero values and repetition  *)
(* are all part of the abstract packet and Encode is a function.           *)
(***************************************************************************)
EXTENDS Bytes, FiniteSets, TLC

WILLCTX == 16      \* context number of the will-properties section

DefinedIds == {1, 2, 3, 8, 9, 11, 17, 18, 19, 21, 22, 23, 24, 25, 26, 28, 31,
               33, 34, 35, 36, 37, 38, 39, 40, 41, 42}
BoolIds == {1, 23, 25, 37, 40, 41, 42}
ZeroForbidden == {11, 33, 35, 39}

PropKind(id) ==
  IF id \in BoolIds THEN "bool"
  ELSE IF id = 36 THEN "u8"
  ELSE IF id \in {19, 33, 34, 35} THEN "u16"
  ELSE IF id \in {2, 17, 24, 39} THEN "u32"
  ELSE IF id = 11 THEN "vbi"
  ELSE IF id \in {3, 8, 18, 21, 26, 28, 31} THEN "str"
  ELSE IF id \in {9, 22} THEN "bin"
  ELSE "pair"

Allowed(ctx) ==
  IF ctx = 1 THEN {17, 33, 39, 34, 25, 23, 21, 22, 38}
  ELSE IF ctx = WILLCTX THEN {24, 1, 2, 3, 8, 9, 38}
  ELSE IF ctx = 2 THEN {17, 33, 36, 37, 39, 18, 34, 31, 40, 41, 42, 19, 26, 28, 21, 22, 38}
  ELSE IF ctx = 3 THEN {1, 2, 35, 8, 9, 3, 11, 38}
  ELSE IF ctx \in 4..7 THEN {31, 38}
  ELSE IF ctx = 8 THEN {11, 38}
  ELSE IF ctx \in {9, 11} THEN {31, 38}
  ELSE IF ctx = 10 THEN {38}
  ELSE IF ctx = 14 THEN {17, 31, 28, 38}
  ELSE IF ctx = 15 THEN {21, 22, 31, 38}
  ELSE {}

Repeatable(ctx, id) == id = 38 \/ (id = 11 /\ ctx = 3)

(* A context number of 100 or more is the lenient reading of context ctx % 100 (see LenientDecode below): every      *)
(* identifier MQTT defines is read, by its wire type, wherever it stands and however often.                          *)
AllowedX(ctx) == IF ctx >= 100 THEN DefinedIds ELSE Allowed(ctx)
RepeatableX(ctx, id) == ctx >= 100 \/ Repeatable(ctx, id)

AccName(id) ==
  CASE id = 1 -> "PayloadFormat" [] id = 2 -> "MessageExpiryInterval" [] id = 3 -> "ContentType"
    [] id = 8 -> "ResponseTopic" [] id = 9 -> "CorrelationData" [] id = 11 -> "SubscriptionID"
    [] id = 17 -> "SessionExpiryInterval" [] id = 18 -> "AssignedClientID"
    [] id = 19 -> "ServerKeepAlive" [] id = 21 -> "AuthMethod" [] id = 22 -> "AuthData"
    [] id = 23 -> "RequestProblemInfo" [] id = 24 -> "WillDelayInterval"
    [] id = 25 -> "RequestResponseInfo" [] id = 26 -> "ResponseInformation"
    [] id = 28 -> "ServerReference" [] id = 31 -> "ReasonString" [] id = 33 -> "ReceiveMax"
    [] id = 34 -> "TopicAliasMax" [] id = 35 -> "TopicAlias" [] id = 36 -> "MaxQoS"
    [] id = 37 -> "RetainAvailable" [] id = 38 -> "UserProperties" [] id = 39 -> "MaxPacketSize"
    [] id = 40 -> "WildcardSubAvailable" [] id = 41 -> "SubIdentifiersAvailable"
    [] id = 42 -> "SharedSubAvailable"

F(k, n, c) == [k |-> k, n |-> n, c |-> c]

Layout(t) ==
  IF t = 1 THEN << F("str", "ProtocolName", "always"), F("u8", "ProtocolVersion", "always"),
                   F("u8", "ConnectFlags", "always"), F("u16", "KeepAlive", "always"),
                   F("props", "Props", "always"), F("str", "ClientID", "always"),
                   F("wprops", "WillProps", "will"), F("str", "WillTopic", "will"),
                   F("bin", "WillPayload", "will"),
                   F("str", "Username", "user"), F("bin", "Password", "pass") >>
  ELSE IF t = 2 THEN << F("u8", "AckFlags", "always"), F("u8", "ReasonCode", "always"),
                        F("props", "Props", "always") >>
  ELSE IF t = 3 THEN << F("str", "TopicName", "always"), F("u16", "PacketID", "qos12"),
                        F("props", "Props", "always"), F("raw", "Payload", "always") >>
  ELSE IF t \in 4..7 THEN << F("u16", "PacketID", "always"), F("u8", "ReasonCode", "more"),
                             F("props", "Props", "more") >>
  ELSE IF t = 8 THEN << F("u16", "PacketID", "always"), F("props", "Props", "always"),
                        F("filters", "Filters", "always") >>
  ELSE IF t \in {9, 11} THEN << F("u16", "PacketID", "always"), F("props", "Props", "always"),
                                F("codes", "ReasonCodes", "always") >>
  ELSE IF t = 10 THEN << F("u16", "PacketID", "always"), F("props", "Props", "always"),
                         F("strs", "Filters", "always") >>
  ELSE IF t = 14 THEN << F("u8", "ReasonCode", "more"), F("props", "Props", "more") >>
  ELSE IF t = 15 THEN << F("u8", "ReasonCode", "more"), F("props", "Props", "ifreason") >>
  ELSE << >>

Bit(b, k) == (b \div (2 ^ k)) % 2 = 1
QoSOf(fl) == (fl \div 2) % 4

(* reserved header flags, MQTT 2.1.3; PUBLISH with both QoS bits is excluded *)
(* here because it makes the layout itself ambiguous                         *)
FlagsOK(t, fl) == IF t \in {6, 8, 10} THEN fl = 2
                  ELSE IF t = 3 THEN QoSOf(fl) # 3
                  ELSE fl = 0

MQTTName == <<77, 81, 84, 84>>

(* checks on a field value that, when violated, make the rest of the layout *)
(* a matter of interpretation: the frame is then never a must-reject        *)
FieldOK(t, n, val) ==
  IF t = 1 /\ n = "ProtocolName" THEN val = MQTTName
  ELSE IF t = 1 /\ n = "ProtocolVersion" THEN val = 5
  ELSE IF t = 1 /\ n = "ConnectFlags" THEN
        /\ ~Bit(val, 0)
        /\ (val \div 8) % 4 # 3
        /\ (~Bit(val, 2) => (val \div 8) % 4 = 0 /\ ~Bit(val, 5))
  ELSE TRUE

(***************************************************************************)
(*                               encoder                                   *)
(***************************************************************************)
RECURSIVE Concat(_)
Concat(ss) == IF ss = <<>> THEN <<>> ELSE Head(ss) \o Concat(Tail(ss))

EncVal(kind, v) ==
  IF kind \in {"u8", "bool"} THEN <<v>>
  ELSE IF kind = "u16" THEN U16(v)
  ELSE IF kind = "u32" THEN U32(v)
  ELSE IF kind = "vbi" THEN VBI(v)
  ELSE IF kind \in {"str", "bin"} THEN Str(v)
  ELSE Str(v[1]) \o Str(v[2])                                    \* pair

EncPropBody(props) == Concat([k \in 1..Len(props) |->
                          <<props[k][1]>> \o EncVal(PropKind(props[k][1]), props[k][2])])
EncProps(props) == LET b == EncPropBody(props) IN VBI(Len(b)) \o b

EncField(k, v) ==
  IF k \in {"u8", "u16", "str", "bin"} THEN EncVal(k, v)
  ELSE IF k \in {"props", "wprops"} THEN EncProps(v)
  ELSE IF k \in {"raw", "codes"} THEN v
  ELSE IF k = "strs" THEN Concat([j \in 1..Len(v) |-> Str(v[j])])
  ELSE Concat([j \in 1..Len(v) |-> Str(v[j][1]) \o <<v[j][2]>>])       \* filters

EncBody(p) == LET L == Layout(p.t) IN
  Concat([j \in 1..Len(L) |-> IF L[j].n \in DOMAIN p.v THEN EncField(L[j].k, p.v[L[j].n]) ELSE <<>>])

Encode(p) == LET b == EncBody(p) IN <<p.t * 16 + p.fl>> \o VBI(Len(b)) \o b

(***************************************************************************)
(*                            strict decoder                               *)
(* Every reader returns [ok, val, next, fm] where fm is the field map:     *)
(* a sequence of [k, s, e, pv] (kind, first index, last index, is the      *)
(* value of a property).                                                   *)
(***************************************************************************)
FM(k, s, e, pv) == <<[k |-> k, s |-> s, e |-> e, pv |-> pv]>>
OkF(val, next, fm) == [ok |-> TRUE, val |-> val, next |-> next, fm |-> fm]
WithFM(r, k, s, pv) == IF r.ok THEN OkF(r.val, r.next, FM(k, s, r.next - 1, pv)) ELSE r

RdVal(f, kind, i, fe, lim, pv) ==
  IF kind \in {"u8", "bool"} THEN WithFM(DecU8(f, i, fe, lim, pv), "u8", i, pv)
  ELSE IF kind = "u16" THEN WithFM(DecU16(f, i, fe, lim, pv), "u16", i, pv)
  ELSE IF kind = "u32" THEN WithFM(DecU32(f, i, fe, lim, pv), "u32", i, pv)
  ELSE IF kind = "vbi" THEN WithFM(DecVBI(f, i, fe, lim, pv), "vbi", i, pv)
  ELSE IF kind \in {"str", "bin"} THEN WithFM(DecStr(f, i, fe, lim, pv), "str", i, pv)
  ELSE LET a == DecStr(f, i, fe, lim, pv) IN                      \* pair
       IF ~a.ok THEN a
       ELSE LET b == DecStr(f, a.next, fe, lim, TRUE) IN
            IF ~b.ok THEN b
            ELSE OkF(<<a.val, b.val>>, b.next,
                     FM("str", i, a.next - 1, pv) \o FM("str2", a.next, b.next - 1, TRUE))      \* str2: the second string of a pair

RECURSIVE PropLoop(_, _, _, _, _, _, _, _)
PropLoop(f, fe, lim, ctx, i, seen, out, fm) ==
  IF i > lim THEN OkF(out, i, fm)
  ELSE LET id == f[i] IN
    IF id \notin DefinedIds THEN Fail("undef", "property identifier not defined by MQTT v5.0", i)
    ELSE IF id \notin AllowedX(ctx) THEN Fail("either", "property not allowed in this packet", i)
    ELSE IF id \in seen /\ ~RepeatableX(ctx, id) THEN Fail("either", "property repeated", i)
    ELSE LET r == RdVal(f, PropKind(id), i + 1, fe, lim, TRUE) IN
      IF ~r.ok THEN r
      ELSE IF PropKind(id) = "bool" /\ r.val > 1 THEN Fail("bool", "boolean property not 0 or 1", i + 1)
      ELSE PropLoop(f, fe, lim, ctx, r.next, seen \cup {id},
                    Append(out, <<id, r.val>>), fm \o FM("id", i, i, FALSE) \o r.fm)

RdProps(f, i, fe, ctx) ==
  LET pl == DecVBI(f, i, fe, fe, FALSE) IN
  IF ~pl.ok THEN pl
  ELSE LET pend == pl.next + pl.val - 1
           lim == IF pend > fe THEN fe ELSE pend
           r == PropLoop(f, fe, lim, ctx, pl.next, {}, <<>>, FM("vbi", i, pl.next - 1, FALSE))
       IN IF ~r.ok THEN r
          ELSE IF pend > fe THEN Fail("either", "property length exceeds the frame", i)
          ELSE r

RECURSIVE StrLoop(_, _, _, _, _), FilterLoop(_, _, _, _, _)
StrLoop(f, fe, i, out, fm) ==
  IF i > fe THEN OkF(out, i, fm)
  ELSE LET r == DecStr(f, i, fe, fe, FALSE) IN
       IF ~r.ok THEN r ELSE StrLoop(f, fe, r.next, Append(out, r.val), fm \o FM("str", i, r.next - 1, FALSE))
FilterLoop(f, fe, i, out, fm) ==
  IF i > fe THEN OkF(out, i, fm)
  ELSE LET r == DecStr(f, i, fe, fe, FALSE) IN
       IF ~r.ok THEN r
       ELSE IF r.next > fe THEN Fail("either", "subscription options missing", r.next)
       ELSE FilterLoop(f, fe, r.next + 1, Append(out, <<r.val, f[r.next]>>),
                       fm \o FM("str", i, r.next - 1, FALSE) \o FM("u8", r.next, r.next, FALSE))

RdField(f, k, i, fe, t) ==
  IF k \in {"u8", "u16", "str", "bin"} THEN RdVal(f, k, i, fe, fe, FALSE)
  ELSE IF k = "props" THEN RdProps(f, i, fe, t)
  ELSE IF k = "wprops" THEN RdProps(f, i, fe, WILLCTX + 100 * (t \div 100))
  ELSE IF k = "raw" THEN OkF(SubSeq(f, i, fe), fe + 1, FM("raw", i, fe, FALSE))
  ELSE IF i > fe THEN Fail("either", "empty payload list", i)
  ELSE IF k = "codes" THEN OkF(SubSeq(f, i, fe), fe + 1, FM("raw", i, fe, FALSE))
  ELSE IF k = "strs" THEN StrLoop(f, fe, i, <<>>, <<>>)
  ELSE FilterLoop(f, fe, i, <<>>, <<>>)

CondHolds(c, fl, acc, i, fe) ==
  IF c = "always" THEN TRUE
  ELSE IF c = "qos12" THEN QoSOf(fl) \in {1, 2}
  ELSE IF c = "more" THEN i <= fe
  ELSE IF c = "ifreason" THEN "ReasonCode" \in DOMAIN acc
  ELSE IF c = "will" THEN Bit(acc["ConnectFlags"], 2)
  ELSE IF c = "user" THEN Bit(acc["ConnectFlags"], 7)
  ELSE Bit(acc["ConnectFlags"], 6)                                        \* "pass"

EmptyFn == [x \in {} |-> 0]

RECURSIVE Walk(_, _, _, _, _, _, _, _, _)
Walk(f, fe, t, fl, L, j, i, acc, fm) ==
  IF j > Len(L) THEN
     IF i = fe + 1 THEN [ok |-> TRUE, v |-> acc, fm |-> fm]
     ELSE Fail("either", "bytes left over after the last field", i)
  ELSE IF ~CondHolds(L[j].c, fl, acc, i, fe) THEN Walk(f, fe, t, fl, L, j + 1, i, acc, fm)
  ELSE LET r == RdField(f, L[j].k, i, fe, t) IN
       IF ~r.ok THEN r
       ELSE IF ~FieldOK(t % 100, L[j].n, r.val) THEN Fail("either", "value changes the reading of the rest", i)
       ELSE Walk(f, fe, t, fl, L, j + 1, r.next, acc @@ (L[j].n :> r.val), fm \o r.fm)

(* f is one whole frame: first byte, remaining length, body.               *)
StrictDecode(f) ==
  IF Len(f) < 2 THEN Fail("either", "shorter than a fixed header", 1)
  ELSE LET fe == Len(f)
           t == f[1] \div 16
           fl == f[1] % 16
           rl == DecVBI(f, 2, fe, fe, FALSE)
       IN IF ~rl.ok THEN rl
          ELSE IF rl.next + rl.val - 1 # fe THEN Fail("either", "remaining length is not the number of bytes that follow", 2)
          ELSE IF t = 0 THEN [ok |-> TRUE, pkt |-> [t |-> 0, fl |-> fl, v |-> [Data |-> SubSeq(f, rl.next, fe)]],
                              fm |-> <<>>, hdr |-> rl.next - 1]
          ELSE IF ~FlagsOK(t, fl) THEN Fail("either", "reserved header flags", 1)
          ELSE LET w == Walk(f, fe, t, fl, Layout(t), 1, rl.next, EmptyFn, <<>>) IN
               IF ~w.ok THEN w
               ELSE [ok |-> TRUE, pkt |-> [t |-> t, fl |-> fl, v |-> w.v], fm |-> w.fm, hdr |-> rl.next - 1]

(* The lenient reading of a frame: as StrictDecode, except that a property MQTT defines is read by its wire type even  *)
(* where the packet may not carry it or carries it twice.  It is the only way a decoder that tolerates such a        *)
(* property can go on, so a frame whose lenient reading meets one of the must-reject conditions (a field cut short,  *)
(* a fifth length byte, a boolean above 1, an undefined identifier) is rejected by every decoder: by the strict ones *)
(* at the property, by the tolerant ones at the later fault.                                                          *)
LenientDecode(f) ==
  LET fe == Len(f)
      t == f[1] \div 16
      fl == f[1] % 16
      rl == DecVBI(f, 2, fe, fe, FALSE)
  IN Walk(f, fe, t + 100, fl, Layout(t), 1, rl.next, EmptyFn, <<>>)

(* one whole frame: first byte, minimal remaining length = bytes that follow *)
Framed(b) ==
  /\ Len(b) >= 2
  /\ LET r == DecVBI(b, 2, Len(b), Len(b), FALSE) IN r.ok /\ r.next + r.val - 1 = Len(b)

(* b is delimited as one frame by a (possibly non-minimal) remaining length *)
Delimited(b) == Len(b) >= 2 /\ LET r == VBIRead(Tail(b)) IN r.kind = "value" /\ Len(b) = 1 + r.width + r.val
FrameLen(b) == LET r == DecVBI(b, 2, Len(b), Len(b), FALSE) IN r.next + r.val - 1

(***************************************************************************)
(*            semantic rules on top of the structure (Appendix C)          *)
(***************************************************************************)
SeqRange(s) == {s[k] : k \in 1..Len(s)}
HasProp(props, id) == \E k \in 1..Len(props) : props[k][1] = id
PropVal(props, id) == props[CHOOSE k \in 1..Len(props) : props[k][1] = id][2]
PropsOf(props, id) == LET                           RECURSIVE Pick(_)
                          Pick(k) == IF k > Len(props) THEN <<>>
                                     ELSE IF props[k][1] = id THEN <<props[k][2]>> \o Pick(k + 1)
                                     ELSE Pick(k + 1)
                      IN Pick(1)

IsZero(kind, v) == IF kind = "u32" THEN v = <<0, 0>> ELSE v = 0

PropsSemOK(props) ==
  \A k \in 1..Len(props) :
     LET id == props[k][1]  val == props[k][2]  kind == PropKind(id) IN
     /\ (id \in ZeroForbidden => ~IsZero(kind, val))
     /\ (kind = "str" => TextOK(val))
     /\ (kind = "pair" => TextOK(val[1]) /\ TextOK(val[2]) /\ Len(val[1]) > 0)
     /\ (id = 36 => val \in {0, 1})
     /\ (id = 11 => val <= MaxVBI)

NoWild(s) == \A k \in 1..Len(s) : s[k] \notin {35, 43}

SemOK(p) ==
  LET v == p.v  t == p.t IN
  /\ ("Props" \in DOMAIN v => PropsSemOK(v["Props"]))
  /\ ("Props" \in DOMAIN v /\ HasProp(v["Props"], 22) => HasProp(v["Props"], 21))
  /\ IF t = 1 THEN /\ TextOK(v["ClientID"])
                   /\ ("WillProps" \in DOMAIN v => PropsSemOK(v["WillProps"]) /\ TextOK(v["WillTopic"])
                                                    /\ Len(v["WillTopic"]) > 0 /\ NoWild(v["WillTopic"]))
                   /\ ("Username" \in DOMAIN v => TextOK(v["Username"]))
     ELSE IF t = 2 THEN /\ v["AckFlags"] \in {0, 1}
                        /\ (v["ReasonCode"] >= 128 => v["AckFlags"] = 0)
     ELSE IF t = 3 THEN /\ TextOK(v["TopicName"]) /\ NoWild(v["TopicName"])
                        /\ (QoSOf(p.fl) = 0 => ~Bit(p.fl, 3))
                        /\ ("PacketID" \in DOMAIN v => v["PacketID"] # 0)
                        /\ (Len(v["TopicName"]) > 0 \/ HasProp(v["Props"], 35))
                        /\ (HasProp(v["Props"], 8) => NoWild(PropVal(v["Props"], 8)) /\ Len(PropVal(v["Props"], 8)) > 0)
     ELSE IF t \in 4..7 THEN v["PacketID"] # 0
     ELSE IF t = 8 THEN /\ v["PacketID"] # 0
                        /\ \A k \in 1..Len(v["Filters"]) :
                             LET fo == v["Filters"][k] IN
                             /\ Len(fo[1]) > 0 /\ TextOK(fo[1])
                             /\ fo[2] % 4 # 3 /\ (fo[2] \div 16) % 4 # 3 /\ fo[2] < 64
     ELSE IF t \in {9, 11} THEN v["PacketID"] # 0
     ELSE IF t = 10 THEN /\ v["PacketID"] # 0
                         /\ \A k \in 1..Len(v["Filters"]) : Len(v["Filters"][k]) > 0 /\ TextOK(v["Filters"][k])
     ELSE TRUE

(***************************************************************************)
(* Verdict: what a decoder owes to the byte string f (one whole frame).    *)
(*   accept  f is fully valid; the decoder must return the values of pkt   *)
(*   reject  f must be rejected, cls in {cut, fifth, bool, undef} (C09 a-d)*)
(*   either  the properties demand neither                                 *)
(***************************************************************************)
Verdict(f) ==
  LET d == StrictDecode(f) IN
  IF d.ok THEN IF d.pkt.t = 0 \/ SemOK(d.pkt)
               THEN [kind |-> "accept", pkt |-> d.pkt, fm |-> d.fm, hdr |-> d.hdr]
               ELSE [kind |-> "either", why |-> "structurally valid, semantic rule violated", pkt |-> d.pkt]
  ELSE IF d.cls = "either"
       THEN IF d.why \in {"property not allowed in this packet", "property repeated"}
            THEN LET d2 == LenientDecode(f) IN
                 IF ~d2.ok /\ d2.cls # "either"
                 THEN [kind |-> "reject", cls |-> d2.cls, why |-> d2.why, at |-> d2.at]     \* tolerant or not, every decoder must reject
                 ELSE [kind |-> "either", why |-> d.why, at |-> d.at]
            ELSE [kind |-> "either", why |-> d.why, at |-> d.at]
  ELSE [kind |-> "reject", cls |-> d.cls, why |-> d.why, at |-> d.at]

(***************************************************************************)
(*                 field map -> interior cut positions (C09 a)             *)
(***************************************************************************)
InteriorCuts(fm) ==
  UNION { (IF x.pv THEN {x.s - 1} ELSE {}) \cup
          (IF x.k \in {"u16", "u32", "str", "str2", "vbi"} THEN x.s..(x.e - 1) ELSE {}) : x \in SeqRange(fm) }

(* for long fields: the first and last interior positions only *)
CutSample(fm) ==
  UNION { (IF x.pv THEN {x.s - 1} ELSE {}) \cup
          (IF x.k \in {"u16", "u32", "str", "str2", "vbi"}
           THEN {x.s, x.s + 1, x.s + 2, x.e - 2, x.e - 1} \cap (x.s..(x.e - 1)) ELSE {}) : x \in SeqRange(fm) }

(* Where a decoder that reads the body field by field starts its reads: the offset (from the start of the body) of every *)
(* entry of the field map - a user property pair is one read, every reason code of a SUBACK / UNSUBACK list is one, an   *)
(* empty PUBLISH payload is none.  The guarded reads of the library (hook H2) are compared with this set (drift only:   *)
(* a decoder may read in another pattern and still satisfy every property).                                            *)
FieldStarts(fm, hdr, t) ==
  UNION { IF x.k = "str2" THEN {}
          ELSE IF x.k = "raw" /\ t \in {9, 11} THEN {j - hdr - 1 : j \in x.s..x.e}
          ELSE IF x.k = "raw" /\ x.e < x.s THEN {}
          ELSE {x.s - hdr - 1} : x \in SeqRange(fm) }

(* the frame that ends after index c of f (c >= hdr), remaining length adjusted *)
Reframe(f, hdr, c) == <<f[1]>> \o VBI(c - hdr) \o SubSeq(f, hdr + 1, c)

(***************************************************************************)
(*   what the accessors of a decoded packet must report (Appendix D)       *)
(***************************************************************************)
ZeroOf(kind) == IF kind = "bool" THEN FALSE
                ELSE IF kind = "u32" THEN <<0, 0>>
                ELSE IF kind \in {"str", "bin"} THEN <<>>
                ELSE 0
ObsVal(kind, v) == IF kind = "bool" THEN v = 1 ELSE v

PropObs(ctx, props) ==
  LET ids == Allowed(ctx) \ ({38} \cup (IF ctx \in {3, 8} THEN {11} ELSE {})) IN
  [n \in {AccName(id) : id \in ids} |->
     LET id == CHOOSE x \in ids : AccName(x) = n IN
     IF HasProp(props, id) THEN ObsVal(PropKind(id), PropVal(props, id)) ELSE ZeroOf(PropKind(id))]

FieldOr(v, n, d) == IF n \in DOMAIN v THEN v[n] ELSE d
PropsOfPkt(v) == FieldOr(v, "Props", <<>>)
B2I(b) == IF b THEN 1 ELSE 0

WillObs(v) ==
  LET fl == v["ConnectFlags"] wp == v["WillProps"] IN
  [has |-> TRUE,
   val |-> ("TopicName" :> v["WillTopic"]) @@ ("Payload" :> v["WillPayload"])
           @@ ("QoS" :> (fl \div 8) % 4) @@ ("Retain" :> Bit(fl, 5))
           @@ [n \in {AccName(id) : id \in {1, 2, 3, 8, 9}} |->
                 LET id == CHOOSE x \in {1, 2, 3, 8, 9} : AccName(x) = n IN
                 IF HasProp(wp, id) THEN ObsVal(PropKind(id), PropVal(wp, id)) ELSE ZeroOf(PropKind(id))]
           @@ ("UserProperties" :> PropsOf(wp, 38))]

ObsOfWire(p) ==
  LET v == p.v  t == p.t  props == PropsOfPkt(v)
      common == IF t \in {1, 2, 3, 4, 5, 6, 7, 8, 9, 10, 11, 14, 15}
                THEN PropObs(t, props) @@ ("UserProperties" :> PropsOf(props, 38)) ELSE EmptyFn
  IN
  IF t = 0 THEN ("Data" :> v["Data"])
  ELSE IF t = 1 THEN
       LET fl == v["ConnectFlags"] IN
       common @@ ("ProtocolName" :> v["ProtocolName"]) @@ ("ProtocolVersion" :> v["ProtocolVersion"])
       @@ ("Flags" :> fl) @@ ("CleanStart" :> Bit(fl, 1)) @@ ("KeepAlive" :> v["KeepAlive"])
       @@ ("ClientID" :> v["ClientID"]) @@ ("Username" :> FieldOr(v, "Username", <<>>))
       @@ ("Password" :> FieldOr(v, "Password", <<>>))
       @@ ("WillDelayInterval" :> IF "WillProps" \in DOMAIN v /\ HasProp(v["WillProps"], 24)
                                  THEN PropVal(v["WillProps"], 24) ELSE <<0, 0>>)
       @@ ("Will" :> IF "WillProps" \in DOMAIN v THEN WillObs(v) ELSE [has |-> FALSE])
  ELSE IF t = 2 THEN
       common @@ ("Flags" :> v["AckFlags"]) @@ ("SessionPresent" :> Bit(v["AckFlags"], 0))
       @@ ("ReasonCode" :> v["ReasonCode"])
  ELSE IF t = 3 THEN
       common @@ ("TopicName" :> v["TopicName"]) @@ ("PacketID" :> FieldOr(v, "PacketID", 0))
       @@ ("Duplicate" :> Bit(p.fl, 3)) @@ ("QoS" :> QoSOf(p.fl)) @@ ("Retain" :> Bit(p.fl, 0))
       @@ ("Payload" :> v["Payload"])
       @@ ("SubscriptionIDs" :> LET s == PropsOf(props, 11) IN [k \in 1..Len(s) |-> Pair32(s[k])])
  ELSE IF t \in 4..7 THEN
       common @@ ("PacketID" :> v["PacketID"]) @@ ("ReasonCode" :> FieldOr(v, "ReasonCode", 0))
  ELSE IF t = 8 THEN
       common @@ ("PacketID" :> v["PacketID"]) @@ ("Filters" :> v["Filters"])
       @@ ("SubscriptionID" :> IF HasProp(props, 11) THEN PropVal(props, 11) ELSE -1)
  ELSE IF t \in {9, 11} THEN
       common @@ ("PacketID" :> v["PacketID"]) @@ ("ReasonCodes" :> v["ReasonCodes"])
  ELSE IF t = 10 THEN
       common @@ ("PacketID" :> v["PacketID"]) @@ ("Filters" :> v["Filters"])
  ELSE IF t \in {14, 15} THEN
       common @@ ("ReasonCode" :> FieldOr(v, "ReasonCode", 0))
  ELSE EmptyFn

TypeName(t) ==
  CASE t = 0 -> "Undefined" [] t = 1 -> "Connect" [] t = 2 -> "ConnAck" [] t = 3 -> "Publish"
    [] t = 4 -> "PubAck" [] t = 5 -> "PubRec" [] t = 6 -> "PubRel" [] t = 7 -> "PubComp"
    [] t = 8 -> "Subscribe" [] t = 9 -> "SubAck" [] t = 10 -> "Unsubscribe" [] t = 11 -> "UnsubAck"
    [] t = 12 -> "PingReq" [] t = 13 -> "PingResp" [] t = 14 -> "Disconnect" [] t = 15 -> "Auth"
    [] t = 16 -> "TopicFilter"      \* not a packet: a value the API takes and a program may keep (PacketAPI, Trace)

(***************************************************************************)
(* Well-formedness of an abstract wire packet: DOMAIN v agrees with the    *)
(* layout conditions, property sections hold allowed identifiers at most   *)
(* once.  On these packets StrictDecode(Encode(p)).pkt = p (checked in     *)
(* MC_Wire).                                                               *)
(***************************************************************************)
PropsWF(ctx, props) ==
  /\ \A k \in 1..Len(props) : props[k][1] \in Allowed(ctx)
                              /\ (PropKind(props[k][1]) = "bool" => props[k][2] \in {0, 1})
  /\ \A j, k \in 1..Len(props) : j # k /\ props[j][1] = props[k][1] => Repeatable(ctx, props[j][1])

WFWire(p) ==
  LET L == Layout(p.t)  v == p.v
      present(n) == n \in DOMAIN v
  IN /\ p.t \in 1..15 /\ FlagsOK(p.t, p.fl)
     /\ DOMAIN v \subseteq {L[j].n : j \in 1..Len(L)}
     /\ \A j \in 1..Len(L) :
          LET c == L[j].c n == L[j].n IN
          /\ (c = "always" => present(n))
          /\ (c = "qos12" => (present(n) <=> QoSOf(p.fl) \in {1, 2}))
          /\ (c = "will" => (present(n) <=> Bit(v["ConnectFlags"], 2)))
          /\ (c = "user" => (present(n) <=> Bit(v["ConnectFlags"], 7)))
          /\ (c = "pass" => (present(n) <=> Bit(v["ConnectFlags"], 6)))
          /\ (c = "ifreason" => (present(n) <=> present("ReasonCode")))
          /\ (c = "more" /\ present(n) => \A i \in 1..(j - 1) : present(L[i].n))
          /\ (present(n) => FieldOK(p.t, n, v[n]))
          /\ (present(n) /\ L[j].k = "props" => PropsWF(p.t, v[n]))
          /\ (present(n) /\ L[j].k = "wprops" => PropsWF(WILLCTX, v[n]))
          /\ (present(n) /\ L[j].k \in {"codes", "strs", "filters"} => Len(v[n]) > 0)
=============================================================================
