------------------------------- MODULE Bytes -------------------------------
(***************************************************************************)
(* Byte-level codecs of MQTT v5.0 (section 1.5): one- two- and four-byte   *)
(* integers, the variable byte integer, UTF-8 strings / binary data with a *)
(* two-byte length prefix.  Pure operators, no state.                      *)
(*                                                                         *)
(* Conventions                                                             *)
(*   - a byte is 0..255, a byte string is a TLA+ sequence of bytes         *)
(*   - TLC integers are 32-bit signed, so a four-byte integer is the pair  *)
(*     <<hi16, lo16>>                                                      *)
(*   - decoders are position based: Dec*(f, i, ...) reads at index i of f  *)
(*     and returns [ok |-> TRUE, val, next] or [ok |-> FALSE, cls, why, at]*)
(*     where cls is the rejection class used by MQTTWire!Verdict.          *)
(***************************************************************************)
EXTENDS Integers, Sequences

Byte == 0..255
MaxVBI == 268435455

U8(n)   == <<n>>
U16(n)  == <<n \div 256, n % 256>>
U32(hl) == U16(hl[1]) \o U16(hl[2])
Pair32(n) == <<n \div 65536, n % 65536>>       \* Int (< 2^31) -> <<hi16, lo16>>

(* Variable byte integer, MQTT 1.5.5: the algorithm of the text.           *)
RECURSIVE VBI(_)
VBI(n) == IF n < 128 THEN <<n>> ELSE <<128 + (n % 128)>> \o VBI(n \div 128)

(* The same in closed form (four cases); VBI = VBI4 is checked by TLC on   *)
(* its range and the round trip of VBI4 is proved by Apalache (VBILemma).  *)
VBI4(n) ==
  IF n < 128 THEN <<n>>
  ELSE IF n < 16384 THEN <<128 + (n % 128), n \div 128>>
  ELSE IF n < 2097152 THEN <<128 + (n % 128), 128 + ((n \div 128) % 128), n \div 16384>>
  ELSE <<128 + (n % 128), 128 + ((n \div 128) % 128), 128 + ((n \div 16384) % 128), n \div 2097152>>

VBILen(n) == IF n < 128 THEN 1 ELSE IF n < 16384 THEN 2 ELSE IF n < 2097152 THEN 3 ELSE 4

Str(s) == U16(Len(s)) \o s

Fail(cls, why, at) == [ok |-> FALSE, cls |-> cls, why |-> why, at |-> at]
Ok(val, next)      == [ok |-> TRUE, val |-> val, next |-> next]

(***************************************************************************)
(* Rejection class of a field of width w at position i that does not fit.  *)
(* fe is the last index of the frame, lim <= fe the last index of the      *)
(* innermost container (property section).  pv: the field is the value of  *)
(* a property whose identifier was already read.                           *)
(*  "cut"    the frame ends strictly inside the field (C09 a)              *)
(*  "either" anything else (field crosses only the property-section end,   *)
(*           or the frame ends on a field boundary)                        *)
(***************************************************************************)
ShortCls(i, w, fe, pv) == IF i + w - 1 > fe /\ (i <= fe \/ pv) THEN "cut" ELSE "either"

DecU8(f, i, fe, lim, pv) ==
  IF i > lim THEN Fail(ShortCls(i, 1, fe, pv), "u8 short", i) ELSE Ok(f[i], i + 1)

DecU16(f, i, fe, lim, pv) ==
  IF i + 1 > lim THEN Fail(ShortCls(i, 2, fe, pv), "u16 short", i)
  ELSE Ok(f[i] * 256 + f[i + 1], i + 2)

DecU32(f, i, fe, lim, pv) ==
  IF i + 3 > lim THEN Fail(ShortCls(i, 4, fe, pv), "u32 short", i)
  ELSE Ok(<<f[i] * 256 + f[i + 1], f[i + 2] * 256 + f[i + 3]>>, i + 4)

(* length-prefixed string / binary data                                    *)
DecStr(f, i, fe, lim, pv) ==
  IF i + 1 > lim THEN Fail(ShortCls(i, 2, fe, pv), "length prefix short", i)
  ELSE LET n == f[i] * 256 + f[i + 1] IN
       IF i + 1 + n > lim
       THEN Fail(IF i + 1 + n > fe THEN "cut" ELSE "either", "string body short", i + 2)
       ELSE Ok(SubSeq(f, i + 2, i + 1 + n), i + 2 + n)

(***************************************************************************)
(* Variable byte integer at i.  Classes: "fifth" a fourth byte carrying    *)
(* the continuation bit (C09 b), "cut" the frame ends after a continuation *)
(* byte, "either" for a non-minimal form or other shortage.                *)
(***************************************************************************)
DecVBI(f, i, fe, lim, pv) ==
  LET C(k) == f[i + k] >= 128          \* byte k (0-based) has the continuation bit
      V(k) == f[i + k] % 128
      Short(k) == Fail(IF i + k > fe /\ (k > 0 \/ pv) THEN "cut" ELSE "either", "vbi short", i + k)
  IN IF i > lim THEN Short(0)
     ELSE IF ~C(0) THEN Ok(V(0), i + 1)
     ELSE IF i + 1 > lim THEN Short(1)
     ELSE IF ~C(1) THEN (IF V(1) = 0 THEN Fail("either", "vbi not minimal", i)
                         ELSE Ok(V(0) + 128 * V(1), i + 2))
     ELSE IF i + 2 > lim THEN Short(2)
     ELSE IF ~C(2) THEN (IF V(2) = 0 THEN Fail("either", "vbi not minimal", i)
                         ELSE Ok(V(0) + 128 * V(1) + 16384 * V(2), i + 3))
     ELSE IF i + 3 > lim THEN Short(3)
     ELSE IF ~C(3) THEN (IF V(3) = 0 THEN Fail("either", "vbi not minimal", i)
                         ELSE Ok(V(0) + 128 * V(1) + 16384 * V(2) + 2097152 * V(3), i + 4))
     ELSE Fail("fifth", "vbi continues beyond four bytes", i + 3)

(***************************************************************************)
(* Lenient reading of a variable byte integer on a whole byte string, as   *)
(* C15 states it: value + bytes advanced, or rejection; non-minimal forms  *)
(* are neither required nor forbidden (kind "nonminimal").                 *)
(***************************************************************************)
VBIRead(b) ==
  LET n == Len(b)
      C(k) == b[k] >= 128
      V(k) == b[k] % 128
  IN IF n = 0 THEN [kind |-> "reject", why |-> "empty"]
     ELSE IF ~C(1) THEN [kind |-> "value", val |-> V(1), width |-> 1, minimal |-> TRUE]
     ELSE IF n = 1 THEN [kind |-> "reject", why |-> "ends on continuation"]
     ELSE IF ~C(2) THEN [kind |-> "value", val |-> V(1) + 128 * V(2), width |-> 2, minimal |-> V(2) # 0]
     ELSE IF n = 2 THEN [kind |-> "reject", why |-> "ends on continuation"]
     ELSE IF ~C(3) THEN [kind |-> "value", val |-> V(1) + 128 * V(2) + 16384 * V(3), width |-> 3, minimal |-> V(3) # 0]
     ELSE IF n = 3 THEN [kind |-> "reject", why |-> "ends on continuation"]
     ELSE IF ~C(4) THEN [kind |-> "value", val |-> V(1) + 128 * V(2) + 16384 * V(3) + 2097152 * V(4), width |-> 4, minimal |-> V(4) # 0]
     ELSE [kind |-> "reject", why |-> IF n = 4 THEN "ends on continuation" ELSE "fifth byte"]

(***************************************************************************)
(* Text that MQTT 1.5.4 allows without reservation: well-formed UTF-8      *)
(* (1 to 4 byte sequences, shortest form, no surrogates, at most U+10FFFF) *)
(* without U+0000, the control characters U+0001..U+001F, U+007F..U+009F   *)
(* and the non-characters.  Conservative where MQTT says SHOULD NOT: a     *)
(* string outside this set is never *required* to be accepted.  Written    *)
(* without recursion (strings of 65 535 bytes): every byte is judged by    *)
(* looking at most three positions back and forth.                         *)
(***************************************************************************)
IsCont(b) == b >= 128 /\ b <= 191
LeadLen(b) == IF b < 128 THEN 1 ELSE IF b >= 194 /\ b <= 223 THEN 2 ELSE IF b >= 224 /\ b <= 239 THEN 3
              ELSE IF b >= 240 /\ b <= 244 THEN 4 ELSE 0
TextOK(s) ==
  LET n == Len(s)
      LeadOK(i) ==                     \* s[i] starts a character: the right number of continuation bytes follow, no forbidden code point
        LET b == s[i]  L == LeadLen(b) IN
        /\ L >= 1 /\ i + L - 1 <= n
        /\ \A e \in 1..(L - 1) : IsCont(s[i + e])
        /\ (L = 1 => b >= 32 /\ b # 127)
        /\ (L = 2 => ~(b = 194 /\ s[i + 1] < 160))                              \* U+0080..U+009F
        /\ (L = 3 => /\ ~(b = 224 /\ s[i + 1] < 160)                            \* shortest form
                      /\ ~(b = 237 /\ s[i + 1] >= 160)                           \* surrogates
                      /\ ~(b = 239 /\ s[i + 1] = 183 /\ s[i + 2] >= 144 /\ s[i + 2] <= 175)   \* U+FDD0..U+FDEF
                      /\ ~(b = 239 /\ s[i + 1] = 191 /\ s[i + 2] >= 190))      \* U+FFFE, U+FFFF
        /\ (L = 4 => /\ ~(b = 240 /\ s[i + 1] < 144)                            \* shortest form
                      /\ ~(b = 244 /\ s[i + 1] > 143)                            \* above U+10FFFF
                      /\ ~(s[i + 1] % 16 = 15 /\ s[i + 2] = 191 /\ s[i + 3] >= 190))   \* U+xFFFE, U+xFFFF
      ContOK(i) ==                     \* s[i] continues a character that started at most three bytes earlier
        \E d \in 1..3 : /\ i - d >= 1 /\ ~IsCont(s[i - d]) /\ LeadLen(s[i - d]) > d
                        /\ \A e \in 1..(d - 1) : IsCont(s[i - e])
  IN \/ \A i \in 1..n : s[i] >= 32 /\ s[i] <= 126                              \* fast path: printable ASCII
     \/ \A i \in 1..n : IF IsCont(s[i]) THEN ContOK(i) ELSE LeadOK(i)
=============================================================================
