------------------------------ MODULE Endpoint ------------------------------
(***************************************************************************)
(* Composition: a pool of packets used by several goroutines.              *)
(*                                                                         *)
(* Packets are built by one goroutine (Mutate, only while no operation is  *)
(* in flight: DESIGN.md D10) and then shared; the read-only operations     *)
(* WriteTo, String, Dump, WellFormed and the accessors are two-step        *)
(* (Call / Return) so that TLC explores every interleaving of their call   *)
(* and return events.  Their write footprint is empty: the specification   *)
(* says UNCHANGED pool for both steps, hence any concurrent execution      *)
(* returns what the sequential one returns (Linearizable) and no packet    *)
(* other than the one named by a Mutate changes (Bystanders).              *)
(* The real code is bound to this module by Trace!EvConc: every goroutine  *)
(* of a Conc event must report the bytes the sequential WriteTo gave.      *)
(***************************************************************************)
EXTENDS Naturals, FiniteSets, TLC

CONSTANTS Handles, Threads, Values      \* Values: abstract packet states

ROps == {"WriteTo", "String", "Dump", "WellFormed", "Accessors"}

VARIABLES pool,   \* handle -> abstract state
          th      \* thread -> [pc, op, h, seen]: seen = the packet state at the call

vars == <<pool, th>>

(* what a read-only operation returns is a function of the packet state *)
Result(op, s) == <<op, s>>

IdleRec == [pc |-> "idle", op |-> "none", h |-> CHOOSE h \in Handles : TRUE, seen |-> CHOOSE v \in Values : TRUE]

Init == /\ pool \in [Handles -> Values]
        /\ th = [t \in Threads |-> IdleRec]

Quiet == \A t \in Threads : th[t].pc = "idle"

Mutate(h, v) == /\ Quiet /\ pool' = [pool EXCEPT ![h] = v] /\ UNCHANGED th

Call(t, op, h) == /\ th[t].pc = "idle"
                  /\ th' = [th EXCEPT ![t] = [pc |-> "called", op |-> op, h |-> h, seen |-> pool[h]]]
                  /\ UNCHANGED pool

Return(t) == /\ th[t].pc = "called"
             /\ th' = [th EXCEPT ![t] = IdleRec]
             /\ UNCHANGED pool

Next == \/ \E h \in Handles, v \in Values : Mutate(h, v)
        \/ \E t \in Threads, op \in ROps, h \in Handles : Call(t, op, h)
        \/ \E t \in Threads : Return(t)

Spec == Init /\ [][Next]_vars

(* every operation returns what a sequential call at its call point would have returned *)
Linearizable == [][\A t \in Threads : th[t].pc = "called" /\ th'[t].pc = "idle" =>
                      Result(th[t].op, pool[th[t].h]) = Result(th[t].op, th[t].seen)]_vars
(* read-only operations never change a packet *)
ReadOnly == [][(\E t \in Threads : th[t].pc # th'[t].pc) => pool' = pool]_vars
(* a Mutate changes the named packet only *)
Bystanders == [][\A h \in Handles : pool'[h] # pool[h] => \A g \in Handles \ {h} : pool'[g] = pool[g]]_vars
=============================================================================
