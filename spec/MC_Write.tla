------------------------------ MODULE MC_Write ------------------------------
(***************************************************************************)
(* Model-checks the writer side (WriteIO): one WriteTo call against every  *)
(* writer of the io.Writer contract that stops accepting after K bytes,    *)
(* for every way of offering the frame in one or several Write calls.      *)
(* Design level: the rules are consistent (NotStuck, Termination), imply   *)
(* what C10 states (TruthfulCount, NoWriteAfterError,                      *)
(* UndefinedWritesNothing) and every completed behaviour satisfies the     *)
(* predicate the trace specification applies to recorded WriteTo events    *)
(* (OutcomeMatches).                                                       *)
(***************************************************************************)
EXTENDS WriteIO

Frames == { <<192, 0>>, <<64, 2, 0, 1>>, <<32, 3, 0, 0, 0>>, <<48, 5, 0, 1, 97, 0, 122>> }

Init == /\ \/ serialisable = TRUE /\ frame \in Frames
           \/ serialisable = FALSE /\ frame = <<>>
        /\ wplan \in [k : 0..8]
        /\ wt = WIdle /\ calls = <<>>

Next == \/ WT_Call
        \/ \E m \in 1..7 : WT_Write(m)
        \/ \E k \in 0..7, e \in {"nil", "E"} : W_Return(k, e)
        \/ \E n \in 0..7, err \in {"nil", "E", "other"} : WT_Return(n, err)

Spec == Init /\ [][Next]_wvars /\ WF_wvars(Next)

NotStuck == ~WDone => ENABLED Next
Termination == <>WDone
=============================================================================
