------------------------------- MODULE MC_API -------------------------------
(***************************************************************************)
(* Model-checks PacketAPI (the packet object under its setters) for one    *)
(* packet type and emits every setter history of length DEPTH as a program *)
(* for the Go driver.  TLC explores all ordered sequences of calls over    *)
(* the complete setter alphabet of the type with zero / non-zero / maximal *)
(* arguments and both truth values (C12), checks the invariants of the     *)
(* model (derived flags in step, frame condition) and prints the history   *)
(* of every leaf state.                                                    *)
(***************************************************************************)
EXTENDS PacketAPI, Json, SequencesExt

CONSTANTS T,        \* packet type 1..15
          DEPTH,    \* number of setter calls per history
          SLICE, SLICES,  \* this process emits the leaves whose first call index % SLICES = SLICE
          WRITES,         \* TRUE: histories may contain WriteTo between calls
          START,          \* "new": the history starts on the constructor's packet; "full": on a packet on which every
                          \*   setter and adder of the type was called once with a non-zero value; "decoded": on the packet
                          \*   ReadPacket returns for the frame of that full packet
          PRE             \* "none" | "write" | "diag": a read-only operation between that set-up and the history, so
                          \*   that whatever the library computed for WriteTo / String is there when the calls arrive

VARIABLES hist, first

Txt(n) == [i \in 1..n |-> 97 + (i % 26)]

KeyKind ==
  [KeepAlive |-> "u16", ClientID |-> "str", ProtocolName |-> "str", ProtocolVersion |-> "ver",
   SessionExpiryInterval |-> "u32", ReceiveMax |-> "u16", MaxPacketSize |-> "u32", TopicAliasMax |-> "u16",
   RequestResponseInfo |-> "bool", RequestProblemInfo |-> "bool", AuthMethod |-> "str", AuthData |-> "bin",
   WillDelayInterval |-> "u32", MaxQoS |-> "bit", RetainAvailable |-> "bool", AssignedClientID |-> "str",
   ReasonCode |-> "u8", ReasonString |-> "str", WildcardSubAvailable |-> "bool",
   SubIdentifiersAvailable |-> "bool", SharedSubAvailable |-> "bool", ServerKeepAlive |-> "u16",
   ResponseInformation |-> "str", ServerReference |-> "str", Duplicate |-> "bool", Retain |-> "bool",
   QoS |-> "qos", TopicName |-> "str", PacketID |-> "u16", PayloadFormat |-> "bool",
   MessageExpiryInterval |-> "u32", TopicAlias |-> "u16", ResponseTopic |-> "str",
   CorrelationData |-> "bin", ContentType |-> "str", Payload |-> "bin", SubscriptionID |-> "subid"]

Vals(kind) ==
  IF kind = "bool" THEN {TRUE, FALSE}
  ELSE IF kind = "bit" THEN {0, 1}
  ELSE IF kind = "u8" THEN {0, 128, 255}
  ELSE IF kind = "u16" THEN {0, 1, 65535}
  ELSE IF kind = "u32" THEN {<<0, 0>>, <<0, 1>>, <<65535, 65535>>}
  ELSE IF kind = "str" THEN {<<>>, Txt(2)}
  ELSE IF kind = "bin" THEN {<<>>, <<0, 255>>}
  ELSE IF kind = "qos" THEN {0, 1, 2}
  ELSE IF kind = "subid" THEN {1, MaxVBI}
  ELSE {4, 5}                                                 \* protocol version: the default and MQTT 3.1.1's (accessors only: outside the C01 domain)

(* the call alphabet of type t: <<method, args>> *)
Alphabet(t) ==
  LET o == NewObs(t)
      plain == UNION {{<<m, <<x>>>> : x \in Vals(KeyKind[PlainKey[m]])} :
                        m \in {m \in DOMAIN PlainKey : PlainKey[m] \in DOMAIN o}}
      ups == IF "UserProperties" \in DOMAIN o
             THEN {<<"AddUserProp", <<Txt(1), Txt(2)>>>>, <<"AddUserProp", <<Txt(2), <<>>>>>>,
                   <<"AddUserProp", <<Txt(3), Txt(1), Txt(1), Txt(3)>>>>} ELSE {}      \* (two pairs in one call)
      spec == IF t = 1 THEN {<<"SetUsername", <<x>>>> : x \in {<<>>, Txt(3)}} \cup {<<"SetPassword", <<x>>>> : x \in {<<>>, <<1, 2>>}}
                            \cup {<<"SetCleanStart", <<x>>>> : x \in BOOLEAN} \cup {<<"SetWill", <<[h |-> g]>>>> : g \in {2, 3, 4}}
              ELSE IF t = 2 THEN {<<"SetSessionPresent", <<x>>>> : x \in BOOLEAN}
              ELSE IF t = 3 THEN {<<"AddSubscriptionID", <<x>>>> : x \in {<<0, 1>>, <<4095, 65535>>}}
              ELSE IF t = 8 THEN {<<"AddFilters", << <<Txt(2), 1>> >>>>, <<"AddFilters", << <<Txt(1), 0>>, <<Txt(3), 46>> >>>>}
              ELSE IF t = 10 THEN {<<"AddFilter", <<Txt(x)>>>> : x \in {1, 3}}
              ELSE IF t \in {9, 11} THEN {<<"AddReasonCode", <<x>>>> : x \in {0, 1, 128}}
              ELSE {}
  IN plain \cup ups \cup spec

(* the set-up of START = "full": every plain setter of the type with a non-zero value, then the adders and the calls *)
(* with side conditions; the result is a packet inside the C01 / C02 domains carrying every field and property      *)
NonZero(kind) ==
  IF kind = "bool" THEN TRUE ELSE IF kind \in {"bit", "qos", "subid"} THEN 1 ELSE IF kind = "u8" THEN 128
  ELSE IF kind = "u16" THEN 258 ELSE IF kind = "u32" THEN <<1, 2>> ELSE IF kind = "str" THEN Txt(3)
  ELSE IF kind = "bin" THEN <<1, 2, 3>> ELSE 5
FullCalls(t) ==
  LET o == NewObs(t)
      plain == SetToSeq({m \in DOMAIN PlainKey : PlainKey[m] \in DOMAIN o /\ PlainKey[m] \notin {"ProtocolName", "ProtocolVersion"}})
      spec == IF t = 1 THEN << <<"SetUsername", <<Txt(2)>>>>, <<"SetPassword", <<<<9, 8>>>>>>, <<"SetCleanStart", <<TRUE>>>>, <<"SetWill", <<[h |-> 3]>>>> >>
              ELSE IF t = 2 THEN << <<"SetSessionPresent", <<TRUE>>>> >>
              ELSE IF t = 3 THEN << <<"AddSubscriptionID", <<<<0, 5>>>>>> >>
              ELSE IF t = 8 THEN << <<"AddFilters", << <<Txt(2), 1>> >>>> >>
              ELSE IF t = 10 THEN << <<"AddFilter", <<Txt(2)>>>> >>
              ELSE IF t \in {9, 11} THEN << <<"AddReasonCode", <<1>>>> >>
              ELSE <<>>
  IN [i \in 1..Len(plain) |-> <<plain[i], <<NonZero(KeyKind[PlainKey[plain[i]]])>>>>]
     \o (IF "UserProperties" \in DOMAIN o THEN << <<"AddUserProp", <<Txt(1), Txt(1)>>>> >> ELSE <<>>)
     \o spec
SetUp == IF START \in {"full", "decoded"} THEN FullCalls(T) ELSE <<>>

Alpha == Alphabet(T)
AlphaSeq == SetToSeq(Alpha)

(* the will messages a CONNECT history may attach: handles 2, 3, 4 *)
WillSetup ==
  << [op |-> "Pub", h |-> 2, args |-> <<0, Txt(3), <<>>>>],
     [op |-> "Pub", h |-> 3, args |-> <<1, Txt(1), <<7, 8>>>>],
     [op |-> "Call", h |-> 3, m |-> "SetRetain", args |-> <<TRUE>>],
     [op |-> "Call", h |-> 3, m |-> "SetResponseTopic", args |-> <<Txt(2)>>],
     [op |-> "Pub", h |-> 4, args |-> <<2, Txt(2), <<9>>>>],
     [op |-> "Call", h |-> 4, m |-> "AddUserProp", args |-> <<Txt(1), Txt(1)>>],
     \* fields a PUBLISH has but a will cannot carry: they stay behind when the message is attached as a will
     [op |-> "Call", h |-> 4, m |-> "SetTopicAlias", args |-> <<7>>],
     [op |-> "Call", h |-> 4, m |-> "AddSubscriptionID", args |-> <<<<0, 9>>>>],
     [op |-> "Call", h |-> 4, m |-> "SetPacketID", args |-> <<11>>],
     [op |-> "Call", h |-> 4, m |-> "SetDuplicate", args |-> <<TRUE>>] >>
WillPool ==
  (2 :> [t |-> 3, o |-> PubObs(0, Txt(3), <<>>)])
  @@ (3 :> [t |-> 3, o |-> [PubObs(1, Txt(1), <<7, 8>>) EXCEPT !["Retain"] = TRUE, !["ResponseTopic"] = Txt(2)]])
  @@ (4 :> [t |-> 3, o |-> [PubObs(2, Txt(2), <<9>>) EXCEPT !["UserProperties"] = << <<Txt(1), Txt(1)>> >>, !["TopicAlias"] = 7,
                                                       !["SubscriptionIDs"] = << <<0, 9>> >>, !["PacketID"] = 11, !["Duplicate"] = TRUE]])

RECURSIVE Fold(_, _)
Fold(o, i) == IF i > Len(SetUp) THEN o
              ELSE Fold(Apply(T, o, SetUp[i][1], SetUp[i][2], IF SetUp[i][1] = "SetWill" THEN WillPool[SetUp[i][2][1].h].o ELSE EmptyFn), i + 1)

Init == /\ pool = (1 :> [t |-> T, o |-> Fold(NewObs(T), 1)]) @@ (IF T = 1 THEN WillPool ELSE EmptyFn)
        /\ hist = <<>> /\ first = 0

Step(i) == /\ Call(1, AlphaSeq[i][1], AlphaSeq[i][2])
           /\ hist' = Append(hist, [op |-> "Call", h |-> 1, m |-> AlphaSeq[i][1], args |-> AlphaSeq[i][2]])
           /\ first' = IF hist = <<>> THEN i ELSE first

(* a read-only operation in the middle of a history: the packet is written, the model state stays *)
Write == /\ hist # <<>> /\ hist[Len(hist)].op # "WriteTo"
         /\ hist' = Append(hist, [op |-> "WriteTo", h |-> 1])
         /\ UNCHANGED <<pool, first>>

Next == /\ Len(hist) < DEPTH
        /\ \/ \E i \in 1..Cardinality(Alpha) : (hist = <<>> => i % SLICES = SLICE) /\ Step(i)
           \/ (WRITES /\ Len(hist) < DEPTH - 1 /\ Write)

Spec == Init /\ [][Next]_<<pool, hist, first>>

(* a call changes only the accessor it names (and the flags derived from it) *)
Touched(m) == IF m \in DOMAIN PlainKey THEN {PlainKey[m]}
              ELSE IF m = "SetUsername" THEN {"Username", "Flags"}
              ELSE IF m = "SetPassword" THEN {"Password", "Flags"}
              ELSE IF m = "SetCleanStart" THEN {"CleanStart", "Flags"}
              ELSE IF m = "SetWill" THEN {"Will", "Flags"}
              ELSE IF m = "SetSessionPresent" THEN {"SessionPresent", "Flags"}
              ELSE IF m = "AddUserProp" THEN {"UserProperties"}
              ELSE IF m = "AddSubscriptionID" THEN {"SubscriptionIDs"}
              ELSE IF m \in {"AddFilters", "AddFilter"} THEN {"Filters"}
              ELSE {"ReasonCodes"}
FrameCondition ==
  [][Len(hist') > Len(hist) /\ hist'[Len(hist')].op = "Call" =>
       LET m == hist'[Len(hist')].m IN
       /\ \A x \in DOMAIN pool[1].o \ Touched(m) : pool'[1].o[x] = pool[1].o[x]
       /\ \A g \in DOMAIN pool \ {1} : pool'[g] = pool[g]]_<<pool, hist, first>>

LastWriteWins ==
  hist # <<>> /\ hist[Len(hist)].op = "Call" =>
                 LET c == hist[Len(hist)] IN
                 c.m \in DOMAIN PlainKey => pool[1].o[PlainKey[c.m]] = c.args[1]

Program ==
  [fam |-> "api", meta |-> [t |-> T, depth |-> DEPTH, start |-> START, pre |-> PRE],
   steps |-> (IF T = 1 THEN WillSetup ELSE <<>>)
             \o (IF START = "decoded"       \* the same packet built on handle 5, written, and read back: the history runs on the DECODED packet
                 THEN <<[op |-> "New", h |-> 5, type |-> TypeName(T)]>>
                      \o [i \in 1..Len(SetUp) |-> [op |-> "Call", h |-> 5, m |-> SetUp[i][1], args |-> SetUp[i][2]]]
                      \o <<[op |-> "WriteTo", h |-> 5], [op |-> "Stream", stream |-> 1, from |-> 5], [op |-> "ReadPacket", h |-> 1, stream |-> 1]>>
                 ELSE <<[op |-> "New", h |-> 1, type |-> TypeName(T)]>>
                      \o [i \in 1..Len(SetUp) |-> [op |-> "Call", h |-> 1, m |-> SetUp[i][1], args |-> SetUp[i][2]]])
             \o (IF PRE = "write" THEN <<[op |-> "WriteTo", h |-> 1]>> ELSE IF PRE = "diag" THEN <<[op |-> "Diag", h |-> 1]>> ELSE <<>>)
             \o hist
             \o << [op |-> "WriteTo", h |-> 1], [op |-> "Stream", stream |-> 1, from |-> 1],
                   [op |-> "ReadPacket", h |-> 9, stream |-> 1], [op |-> "Diag", h |-> 1] >>
             \* the twin: the same calls on a second packet that is never written or printed in between; equal states, equal bytes
             \o (IF START = "full" /\ PRE # "none"
                 THEN <<[op |-> "New", h |-> 7, type |-> TypeName(T)]>>
                      \o [i \in 1..Len(SetUp) |-> [op |-> "Call", h |-> 7, m |-> SetUp[i][1], args |-> SetUp[i][2]]]
                      \o [i \in 1..Len(hist) |-> IF hist[i].op = "Call" THEN [hist[i] EXCEPT !.h = 7] ELSE [op |-> "Diag", h |-> 1]]
                      \o <<[op |-> "WriteTo", h |-> 7]>>
                 ELSE <<>>)]

Emit == Len(hist) = DEPTH => PrintT(<<"PROG", ToJson(Program)>>)
=============================================================================
