------------------------------ MODULE StreamIO ------------------------------
(***************************************************************************)
(* ReadPacket against an adversarial io.Reader, and WriteTo against a      *)
(* faulting io.Writer.                                                     *)
(*                                                                         *)
(* Reader side.  The transport holds the byte string `wire`, of which it   *)
(* will deliver the first `limit` bytes and then meet its `fate` (end of   *)
(* stream or a failure E), either together with the last delivered bytes   *)
(* (`with`) or on the following call.  One ReadPacket call is the          *)
(* activation record `rp`; each Read of the implementation is the pair of  *)
(* actions RP_Read (the implementation offers a buffer) and T_Return (the  *)
(* transport answers within the io.Reader contract).                       *)
(*                                                                         *)
(* The implementation may use any request policy that cannot over-read     *)
(* (KnownNeed); the transport may deliver any non-empty part, or nothing   *)
(* with a nil error a bounded number of times.                             *)
(***************************************************************************)
EXTENDS WriteRules

VARIABLES wire, limit, fate, with, pos, rp

svars == <<wire, limit, fate, with, pos, rp>>

Idle == [st |-> "idle", start |-> 0, got |-> 0, req |-> 0, fault |-> "nil"]

(* bytes of the current call obtained so far *)
Got == SubSeq(wire, rp.start + 1, rp.start + rp.got)

(***************************************************************************)
(* What is known about the frame from the bytes obtained so far.           *)
(*   hdr   TRUE when the fixed header is complete                          *)
(*   total length of the frame when hdr                                    *)
(*   bad   the remaining length carries a fourth continuation byte         *)
(***************************************************************************)
Header(g) ==
  LET n == Len(g)
      C(k) == g[k] >= 128
      V(k) == g[k] % 128
  IN IF n < 2 THEN [hdr |-> FALSE, bad |-> FALSE]
     ELSE IF ~C(2) THEN [hdr |-> TRUE, bad |-> FALSE, hl |-> 2, total |-> 2 + V(2)]
     ELSE IF n < 3 THEN [hdr |-> FALSE, bad |-> FALSE]
     ELSE IF ~C(3) THEN [hdr |-> TRUE, bad |-> FALSE, hl |-> 3, total |-> 3 + V(2) + 128 * V(3)]
     ELSE IF n < 4 THEN [hdr |-> FALSE, bad |-> FALSE]
     ELSE IF ~C(4) THEN [hdr |-> TRUE, bad |-> FALSE, hl |-> 4, total |-> 4 + V(2) + 128 * V(3) + 16384 * V(4)]
     ELSE IF n < 5 THEN [hdr |-> FALSE, bad |-> FALSE]
     ELSE IF ~C(5) THEN [hdr |-> TRUE, bad |-> FALSE, hl |-> 5,
                         total |-> 5 + V(2) + 128 * V(3) + 16384 * V(4) + 2097152 * V(5)]
     ELSE [hdr |-> FALSE, bad |-> TRUE]

(* the largest request that cannot read beyond the current frame *)
KnownNeed(g) ==
  LET h == Header(g) IN
  IF Len(g) = 0 THEN 2
  ELSE IF h.hdr THEN h.total - Len(g)
  ELSE IF h.bad THEN (IF Len(g) = 5 THEN 1 ELSE 0)     \* D6: the call may fail before or after reading a fifth length byte
  ELSE 1

Complete(g) == LET h == Header(g) IN h.hdr /\ h.total = Len(g)

(***************************************************************************)
(*                                actions                                  *)
(***************************************************************************)
RP_Call ==
  /\ rp.st \in {"idle", "done"}
  /\ rp' = [st |-> "run", start |-> pos, got |-> 0, req |-> 0, fault |-> "nil"]
  /\ UNCHANGED <<wire, limit, fate, with, pos>>

RP_ReadGuard(m) == rp.st = "run" /\ m >= 1 /\ m <= KnownNeed(Got)
RP_ReadEff(m) == /\ rp' = [rp EXCEPT !.st = "wait", !.req = m]
                 /\ UNCHANGED <<wire, limit, fate, with, pos>>
RP_Read(m) == RP_ReadGuard(m) /\ RP_ReadEff(m)

(* the io.Reader contract: 0 <= n <= len(p); bytes are the next bytes of the *)
(* stream; an error is returned with the last bytes or after them             *)
T_ReturnGuard(n, e) ==
  /\ rp.st = "wait"
  /\ n >= 0 /\ n <= rp.req /\ n <= limit - pos
  /\ e \in {"nil", "eof", "E"}
  /\ (e # "nil" => e = fate /\ pos + n = limit /\ (n > 0 => with))
  /\ (e = "nil" /\ n = 0 => pos < limit)                 \* (0, nil) only while data is pending
  /\ (e = "nil" /\ with => pos + n < limit)              \* the last bytes carry the fate when `with`
T_ReturnEff(n, e) ==
  /\ pos' = pos + n
  /\ rp' = [rp EXCEPT !.st = "run", !.got = @ + n, !.req = 0, !.fault = e]
  /\ UNCHANGED <<wire, limit, fate, with>>
T_Return(n, e) == T_ReturnGuard(n, e) /\ T_ReturnEff(n, e)

(***************************************************************************)
(* When ReadPacket may return, and with what.  res is                      *)
(*   "pkt"  a packet, no error         "err"  no packet, an error          *)
(* isE / isEOF: errors.Is(err, E) / errors.Is(err, io.EOF).                *)
(* The value of the packet (or the duty to reject) for a complete frame    *)
(* comes from MQTTWire!Verdict and is checked where this action is used.   *)
(***************************************************************************)
MayReturn(res, isE, isEOF) ==
  LET g == Got  f == rp.fault IN
  \/ Complete(g)                                        \* whole frame obtained: the content decides (Verdict);
                                                        \* an error E that came with the last bytes may be reported or not (D6)
  \/ /\ ~Complete(g) /\ f = "E" /\ res = "err" /\ isE   \* transport failed inside the frame
  \/ /\ ~Complete(g) /\ f = "eof" /\ res = "err"        \* stream ended inside the frame ...
     /\ (Len(g) = 0 => isEOF)                           \* ... or exactly on a frame boundary
  \/ /\ ~Complete(g) /\ Header(g).bad /\ res = "err"    \* remaining length beyond four bytes

RP_ReturnEff == rp' = [rp EXCEPT !.st = "done"] /\ UNCHANGED <<wire, limit, fate, with, pos>>
RP_Return(res, isE, isEOF) ==
  /\ rp.st = "run"
  /\ MayReturn(res, isE, isEOF)
  /\ RP_ReturnEff

(***************************************************************************)
(* Safety properties of the design (checked in MC_Stream)                  *)
(***************************************************************************)
NeverOverRead == rp.st # "idle" =>
                   LET h == Header(Got) IN h.hdr => rp.got <= h.total
ConsumedIsGot == rp.st # "idle" => pos = rp.start + rp.got
DeliveredWithinLimit == pos <= limit /\ limit <= Len(wire)
=============================================================================
