----------------------------- MODULE VBILemma -----------------------------
(***************************************************************************)
(* Apalache lemma behind C15: for EVERY value v in 0..268435455 the closed *)
(* form VBI4(v) (Bytes!VBI4, transcribed here with type annotations) is    *)
(* read back by the closed-form reader as v, with the width of its length, *)
(* is minimal (last byte non-zero unless the value is one byte), has the   *)
(* continuation bit on all but the last byte and 7 value bits per byte.    *)
(*   apalache-mc check --init=Init --inv=Lemma --length=0 VBILemma.tla     *)
(***************************************************************************)
EXTENDS Integers, Sequences

VARIABLE
  \* @type: Int;
  v

\* @type: (Int) => Seq(Int);
VBI4(n) ==
  IF n < 128 THEN <<n>>
  ELSE IF n < 16384 THEN <<128 + (n % 128), n \div 128>>
  ELSE IF n < 2097152 THEN <<128 + (n % 128), 128 + ((n \div 128) % 128), n \div 16384>>
  ELSE <<128 + (n % 128), 128 + ((n \div 128) % 128), 128 + ((n \div 16384) % 128), n \div 2097152>>

\* @type: (Seq(Int)) => Int;
ReadVal(b) ==
  IF b[1] < 128 THEN b[1]
  ELSE IF b[2] < 128 THEN (b[1] % 128) + 128 * b[2]
  ELSE IF b[3] < 128 THEN (b[1] % 128) + 128 * (b[2] % 128) + 16384 * b[3]
  ELSE (b[1] % 128) + 128 * (b[2] % 128) + 16384 * (b[3] % 128) + 2097152 * b[4]

\* @type: (Seq(Int)) => Int;
ReadWidth(b) ==
  IF b[1] < 128 THEN 1 ELSE IF b[2] < 128 THEN 2 ELSE IF b[3] < 128 THEN 3 ELSE 4

Init == v \in 0..268435455
Next == UNCHANGED v

Lemma ==
  LET b == VBI4(v) n == Len(b) IN
  /\ n \in 1..4
  /\ \A i \in 1..4 : i <= n => b[i] \in 0..255
  /\ \A i \in 1..4 : i < n => b[i] >= 128
  /\ b[n] < 128
  /\ (n > 1 => b[n] # 0)
  /\ ReadWidth(b) = n
  /\ ReadVal(b) = v
=============================================================================
