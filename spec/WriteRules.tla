----------------------------- MODULE WriteRules -----------------------------
(***************************************************************************)
(* What a completed WriteTo call owes its caller (C10), as a predicate over *)
(* the log of Write calls the writer saw.  Constant module: used by the    *)
(* trace specification on recorded WriteTo events (through StreamIO) and   *)
(* by the writer state machine WriteIO, whose completed behaviours TLC     *)
(* shows to satisfy it (MC_Write!OutcomeMatches).                          *)
(***************************************************************************)
EXTENDS MQTTWire

(***************************************************************************)
(* Writer side: WriteTo offers the frame to an io.Writer that accepts      *)
(* everything, or accepts only the first k bytes and reports E.            *)
(***************************************************************************)
(* the outcome WriteTo owes: offered = concatenation of all Write calls,    *)
(* calls = their <<len, accepted, error>> log                               *)
WithinOneFrame(offered) ==
  \/ Len(offered) < 2
  \/ LET rl == VBIRead(Tail(offered)) IN rl.kind # "value" \/ Len(offered) <= 1 + rl.width + rl.val
WriteOutcomeOK(t, offered, calls, n, err, strN) ==
  IF t = 0 THEN err # "nil" /\ Len(calls) = 0 /\ n = 0
  ELSE LET nc == Len(calls)
           accepted == IF nc = 0 THEN 0 ELSE
                         LET RECURSIVE Sum(_)
                             Sum(k) == IF k = 0 THEN 0 ELSE calls[k].k + Sum(k - 1)
                         IN Sum(nc)
           failed == nc > 0 /\ calls[nc].e # "nil"
       IN /\ nc >= 1
          /\ \A i \in 1..(nc - 1) : calls[i].e = "nil"        \* nothing more is handed to a writer that has reported an error
          /\ WithinOneFrame(offered)                         \* ("exactly one frame and nothing else", also when the write fails)
          /\ IF failed THEN err = calls[nc].e /\ n = accepted
             ELSE /\ err = "nil" /\ Framed(offered) /\ n = Len(offered) /\ n = accepted
                  /\ (strN >= 0 => strN = n)
=============================================================================
