----------------------------- MODULE PacketAPI -----------------------------
(***************************************************************************)
(* The packet object as a state machine under the public constructors,     *)
(* setters and adders.  The state of a packet is exactly what the public   *)
(* accessors can observe: a record keyed by accessor name (Appendix D of   *)
(* DESIGN.md), the same record MQTTWire!ObsOfWire computes for a decoded   *)
(* frame, so "what was set", "what the frame carries" and "what the        *)
(* decoded packet reports" are compared in one vocabulary.                 *)
(*                                                                         *)
(*   pool : handle -> [t |-> packet type 0..15, o |-> accessor record]     *)
(*                                                                         *)
(* The API is held as data: PlainKey maps a setter name to the accessor it *)
(* writes; only calls with side conditions are spelled out in Apply.       *)
(***************************************************************************)
EXTENDS MQTTWire

VARIABLE pool

TypeNum(name) == CHOOSE t \in 0..16 : TypeName(t) = name

(* the wire packet a freshly constructed packet of type t stands for *)
Blank(t) ==
  [t |-> t, fl |-> IF t \in {6, 8, 10} THEN 2 ELSE 0,
   v |-> IF t = 0 THEN [Data |-> <<>>]
         ELSE IF t = 1 THEN [ProtocolName |-> MQTTName, ProtocolVersion |-> 5, ConnectFlags |-> 0,
                             KeepAlive |-> 0, Props |-> <<>>, ClientID |-> <<>>]
         ELSE IF t = 2 THEN [AckFlags |-> 0, ReasonCode |-> 0, Props |-> <<>>]
         ELSE IF t = 3 THEN [TopicName |-> <<>>, Props |-> <<>>, Payload |-> <<>>]
         ELSE IF t \in 4..7 THEN [PacketID |-> 0]
         ELSE IF t \in {8, 10} THEN [PacketID |-> 0, Props |-> <<>>, Filters |-> <<>>]
         ELSE IF t \in {9, 11} THEN [PacketID |-> 0, Props |-> <<>>, ReasonCodes |-> <<>>]
         ELSE EmptyFn]

NewObs(t) == IF t = 16 THEN [Filter |-> <<>>, Options |-> 0] ELSE ObsOfWire(Blank(t))

(* setter name -> accessor key, for setters that store their argument *)
PlainKey ==
  [SetKeepAlive |-> "KeepAlive", SetClientID |-> "ClientID", SetProtocolName |-> "ProtocolName",
   SetProtocolVersion |-> "ProtocolVersion", SetSessionExpiryInterval |-> "SessionExpiryInterval",
   SetReceiveMax |-> "ReceiveMax", SetMaxPacketSize |-> "MaxPacketSize",
   SetTopicAliasMax |-> "TopicAliasMax", SetRequestResponseInfo |-> "RequestResponseInfo",
   SetRequestProblemInfo |-> "RequestProblemInfo", SetAuthMethod |-> "AuthMethod",
   SetAuthData |-> "AuthData", SetWillDelayInterval |-> "WillDelayInterval",
   SetMaxQoS |-> "MaxQoS", SetRetainAvailable |-> "RetainAvailable",
   SetAssignedClientID |-> "AssignedClientID", SetReasonCode |-> "ReasonCode",
   SetReasonString |-> "ReasonString", SetWildcardSubAvailable |-> "WildcardSubAvailable",
   SetSubIdentifiersAvailable |-> "SubIdentifiersAvailable",
   SetSharedSubAvailable |-> "SharedSubAvailable", SetServerKeepAlive |-> "ServerKeepAlive",
   SetResponseInformation |-> "ResponseInformation", SetServerReference |-> "ServerReference",
   SetDuplicate |-> "Duplicate", SetRetain |-> "Retain", SetQoS |-> "QoS",
   SetTopicName |-> "TopicName", SetPacketID |-> "PacketID", SetPayloadFormat |-> "PayloadFormat",
   SetMessageExpiryInterval |-> "MessageExpiryInterval", SetTopicAlias |-> "TopicAlias",
   SetResponseTopic |-> "ResponseTopic", SetCorrelationData |-> "CorrelationData",
   SetContentType |-> "ContentType", SetPayload |-> "Payload",
   SetSubscriptionID |-> "SubscriptionID", SetFilter |-> "Filter", SetOptions |-> "Options"]

SetBit(x, k, b) == IF b = Bit(x, k) THEN x ELSE IF b THEN x + 2 ^ k ELSE x - 2 ^ k

(* The will of a CONNECT is a reference to a PUBLISH handle (ref): Will() returns that very packet, so later calls  *)
(* on it show through the accessor, while the CONNECT's flags and its copy of the payload date from SetWill.      *)
(* val is what Will() reports; stale records that the will was modified after it was attached (outside D1).      *)
(* the fields of a PUBLISH that a will message carries *)
WillKeys == {"TopicName", "Payload", "QoS", "Retain", "PayloadFormat", "MessageExpiryInterval",
             "ContentType", "ResponseTopic", "CorrelationData", "UserProperties"}
WillSnapshot(po) == [k \in WillKeys |-> po[k]]

RECURSIVE PairUp(_)
PairUp(a) == IF Len(a) < 2 THEN <<>> ELSE << <<a[1], a[2]>> >> \o PairUp(SubSeq(a, 3, Len(a)))

(* Which calls the model knows for a packet of type t with accessor record o *)
Known(t, o, m) ==
  \/ m \in DOMAIN PlainKey /\ PlainKey[m] \in DOMAIN o
  \/ m = "AddUserProp" /\ "UserProperties" \in DOMAIN o
  \/ t = 1 /\ m \in {"SetUsername", "SetPassword", "SetCleanStart", "SetWill"}
  \/ t = 2 /\ m = "SetSessionPresent"
  \/ t = 3 /\ m = "AddSubscriptionID"
  \/ t = 8 /\ m = "AddFilters"
  \/ t = 10 /\ m = "AddFilter"
  \/ t \in {9, 11} /\ m = "AddReasonCode"

(* o after the call m(a) on a packet of type t; wp = accessor record of the  *)
(* PUBLISH passed to SetWill (unused otherwise)                              *)
Apply(t, o, m, a, wp) ==
  IF t = 1 /\ m = "SetUsername" THEN
       [o EXCEPT !["Username"] = a[1], !["Flags"] = SetBit(@, 7, Len(a[1]) > 0)]
  ELSE IF t = 1 /\ m = "SetPassword" THEN
       [o EXCEPT !["Password"] = a[1], !["Flags"] = SetBit(@, 6, Len(a[1]) > 0)]
  ELSE IF t = 1 /\ m = "SetCleanStart" THEN
       [o EXCEPT !["CleanStart"] = a[1], !["Flags"] = SetBit(@, 1, a[1])]
  ELSE IF t = 1 /\ m = "SetWill" THEN
       [o EXCEPT !["Will"] = [has |-> TRUE, val |-> WillSnapshot(wp), ref |-> a[1].h, stale |-> FALSE],
                 !["Flags"] = SetBit(SetBit(SetBit(SetBit(@, 2, TRUE), 5, wp["Retain"]),
                                            3, wp["QoS"] % 2 = 1 /\ wp["QoS"] < 3),
                                     4, wp["QoS"] = 2)]
  ELSE IF t = 2 /\ m = "SetSessionPresent" THEN
       [o EXCEPT !["SessionPresent"] = a[1], !["Flags"] = SetBit(@, 0, a[1])]
  ELSE IF m = "AddUserProp" THEN [o EXCEPT !["UserProperties"] = @ \o PairUp(a)]
  ELSE IF m = "AddSubscriptionID" THEN [o EXCEPT !["SubscriptionIDs"] = Append(@, a[1])]
  ELSE IF m = "AddFilters" THEN [o EXCEPT !["Filters"] = @ \o a]
  ELSE IF m = "AddFilter" THEN [o EXCEPT !["Filters"] = Append(@, a[1])]
  ELSE IF m = "AddReasonCode" THEN [o EXCEPT !["ReasonCodes"] = Append(@, a[1])]
  ELSE [o EXCEPT ![PlainKey[m]] = a[1]]

(***************************************************************************)
(* WellFormed, exactly as C17 states it                                    *)
(***************************************************************************)
PublishWF(o) == ~ \/ (Len(o["TopicName"]) = 0 /\ o["TopicAlias"] = 0)
                  \/ (o["QoS"] \in {1, 2} /\ o["PacketID"] = 0)
                  \/ o["QoS"] = 3
FilterWF(f) == Len(f[1]) > 0 /\ f[2] % 4 # 3
SubscribeWF(o) == /\ Len(o["Filters"]) > 0
                  /\ o["SubscriptionID"] <= MaxVBI
                  /\ \A k \in 1..Len(o["Filters"]) : FilterWF(o["Filters"][k])
HasWF(t) == t \in {3, 8}
WF(t, o) == IF t = 3 THEN PublishWF(o) ELSE SubscribeWF(o)

(***************************************************************************)
(* Domains of C01 and C02 (DESIGN.md section 5, D1 and D2)                 *)
(***************************************************************************)
UPsOK(ups) == \A k \in 1..Len(ups) : Len(ups[k][1]) > 0 /\ Len(ups[k][1]) <= 65535 /\ Len(ups[k][2]) <= 65535
                                      /\ TextOK(ups[k][1]) /\ TextOK(ups[k][2])
StrKeys == {"ClientID", "Username", "AuthMethod", "AssignedClientID", "ReasonString",
            "ResponseInformation", "ServerReference", "TopicName", "ResponseTopic", "ContentType"}
BinKeys == {"Password", "AuthData", "CorrelationData"}

InC01Domain(t, o) ==
  /\ \A k \in DOMAIN o \cap StrKeys : Len(o[k]) <= 65535 /\ TextOK(o[k])
  /\ \A k \in DOMAIN o \cap BinKeys : Len(o[k]) <= 65535
  /\ ("UserProperties" \in DOMAIN o => UPsOK(o["UserProperties"]))
  /\ ("MaxQoS" \in DOMAIN o => o["MaxQoS"] \in {0, 1})
  /\ IF t = 1 THEN
        /\ o["ProtocolName"] = MQTTName /\ o["ProtocolVersion"] = 5                  \* MQTT v5.0 (other names / versions: accessors only)
        /\ (o["Will"].has /\ "stale" \in DOMAIN o["Will"] => ~o["Will"].stale)      \* D1: not modified after it was attached
        /\ (o["Will"].has => LET w == o["Will"].val IN
               /\ w["QoS"] \in 0..2 /\ Len(w["TopicName"]) <= 65535 /\ TextOK(w["TopicName"])
               /\ Len(w["Payload"]) <= 65535 /\ Len(w["CorrelationData"]) <= 65535
               /\ TextOK(w["ResponseTopic"]) /\ TextOK(w["ContentType"]) /\ UPsOK(w["UserProperties"]))
        /\ (~o["Will"].has => o["WillDelayInterval"] = <<0, 0>>)
     ELSE IF t = 3 THEN
        /\ o["QoS"] \in 0..2
        /\ (o["QoS"] = 0 => o["PacketID"] = 0)
        /\ \A k \in 1..Len(o["SubscriptionIDs"]) :
              LET s == o["SubscriptionIDs"][k] IN (s[1] > 0 \/ s[2] > 0) /\ s[1] < 4096
     ELSE IF t = 8 THEN
        /\ Len(o["Filters"]) > 0
        /\ (o["SubscriptionID"] = -1 \/ o["SubscriptionID"] \in 1..MaxVBI)
        /\ \A k \in 1..Len(o["Filters"]) : Len(o["Filters"][k][1]) <= 65535 /\ TextOK(o["Filters"][k][1])
     ELSE IF t = 10 THEN
        /\ Len(o["Filters"]) > 0
        /\ \A k \in 1..Len(o["Filters"]) : Len(o["Filters"][k]) <= 65535 /\ TextOK(o["Filters"][k])
     ELSE t # 0

InC02Domain(t, o) ==
  /\ InC01Domain(t, o)
  /\ IF t = 1 THEN o["ProtocolName"] = MQTTName /\ o["ProtocolVersion"] = 5
     ELSE IF t = 3 THEN /\ (Len(o["TopicName"]) > 0 \/ o["TopicAlias"] # 0)
                        /\ (o["QoS"] \in {1, 2} => o["PacketID"] # 0)
     ELSE IF t \in {9, 11} THEN Len(o["ReasonCodes"]) > 0
     ELSE TRUE

(* keys on which two accessor records differ (Will compared on the will fields) *)
ObsDiffModel(a, b) ==
  {x \in DOMAIN a : IF x \notin DOMAIN b THEN TRUE
                    ELSE IF x = "Will" THEN ~(a[x].has = b[x].has /\ (a[x].has => a[x].val = b[x].val))
                    ELSE a[x] # b[x]}

(***************************************************************************)
(*                               actions                                   *)
(***************************************************************************)
Put(h, rec) == pool' = (h :> rec) @@ pool

New(h, t) == Put(h, [t |-> t, o |-> NewObs(t)])

PubObs(qos, topic, payload) ==
  [NewObs(3) EXCEPT !["QoS"] = qos, !["TopicName"] = topic, !["Payload"] = payload]

Pub(h, qos, topic, payload) == Put(h, [t |-> 3, o |-> PubObs(qos, topic, payload)])

Call(h, m, a) ==
  /\ h \in DOMAIN pool
  /\ Known(pool[h].t, pool[h].o, m)
  /\ LET wp == IF m = "SetWill" THEN pool[a[1].h].o ELSE EmptyFn IN
     pool' = [pool EXCEPT ![h].o = Apply(pool[h].t, pool[h].o, m, a, wp)]

(***************************************************************************)
(* Invariants of the model itself (checked in MC_API): derived flags are   *)
(* in step with the values (C12)                                           *)
(***************************************************************************)
FlagsInStep ==
  \A h \in DOMAIN pool :
    LET o == pool[h].o IN
    /\ pool[h].t = 1 =>
         /\ Bit(o["Flags"], 7) = (Len(o["Username"]) > 0)
         /\ Bit(o["Flags"], 6) = (Len(o["Password"]) > 0)
         /\ Bit(o["Flags"], 1) = o["CleanStart"]
         /\ Bit(o["Flags"], 2) = o["Will"].has
         /\ (o["Will"].has => /\ Bit(o["Flags"], 5) = o["Will"].val["Retain"]
                              /\ (o["Flags"] \div 8) % 4 = o["Will"].val["QoS"])
    /\ pool[h].t = 2 => Bit(o["Flags"], 0) = o["SessionPresent"]
=============================================================================
