SPECIFICATION Spec
POSTCONDITION TraceDone
CHECK_DEADLOCK FALSE
