------------------------------- MODULE Trace -------------------------------
(***************************************************************************)
(* Trace specification: checks a trace recorded from the real library      *)
(* (ND-JSON, one event per line, written by harness/mqdrive) against the   *)
(* specification.  Every event must be a step of PacketAPI / StreamIO and  *)
(* the logged observation must equal what the specification says.          *)
(*                                                                         *)
(* A divergence does not stop the run: it is recorded as a note            *)
(* [line, prog, prop, why, ...] in TLC register 1, the model is            *)
(* re-synchronised to the observation, and the rest of the trace is still  *)
(* examined.  POSTCONDITION TraceDone writes the notes to a file and       *)
(* requires the whole trace to have been consumed.                         *)
(*                                                                         *)
(* Run:  TRACE=<trace.ndjson> NOTES=<notes.ndjson> tlc -workers 1          *)
(*       -config Trace.cfg Trace.tla                                       *)
(***************************************************************************)
EXTENDS PacketAPI, StreamIO, MQLib, Json, IOUtils

TraceFile == IOEnv.TRACE
NotesFile == IOEnv.NOTES
Trace == ndJsonDeserialize(TraceFile)
N == Len(Trace)

VARIABLES l,      \* next trace line
          k, ph,  \* position inside a Read event: call index, "req" / "ret"
          prog,   \* [id, fam] of the current program
          from,   \* handle whose written bytes feed the current stream (0: none)
          contig, \* the current stream is delivered without fragmentation or fault
          enc,    \* handle -> [o, bytes, clean]: last encoding, the model state it was made in, and whether no event
                  \*   has named the handle since
          memo,   \* frame -> outcome of its first decode in this program
          diag,   \* handle -> [string, dump] of the last Diag
          smemo,  \* stream bytes -> outcomes <<ok, type>> of the successive calls of its first, undisturbed delivery (C07)
          ncall,  \* number of ReadPacket calls made on the current stream
          bystate,\* <<type, accessor record>> -> bytes of the first complete encoding of a packet in that state (C11)
          wanted    \* handle -> accessor record of a packet built through the API as the calls alone determine it: pool is
                  \*   re-synchronised to the observation after a divergence (so that one defect is reported once under
                  \*   C12), wanted never is; "the values that were set" of C01 / C02 are wanted

tvars == <<l, k, ph, prog, from, contig, enc, memo, diag, wanted, smemo, ncall, bystate, pool, svars>>

(* register 1: the notes kept (at most MaxPerProp per property); register 2: property -> number of notes *)
MaxPerProp == 60
Note(prop, why, extra) ==
  LET cnt == TLCGet(2)
      n == IF prop \in DOMAIN cnt THEN cnt[prop] ELSE 0
  IN /\ TLCSet(2, (prop :> n + 1) @@ cnt)
     /\ IF n < MaxPerProp
        THEN TLCSet(1, Append(TLCGet(1), [line |-> l, prog |-> prog.id, fam |-> prog.fam, prop |-> prop,
                                          why |-> why, extra |-> extra]))
        ELSE TRUE
NoteIf(cond, prop, why, extra) == IF cond THEN Note(prop, why, extra) ELSE TRUE

(* register 4: how often each kind of event / verdict / judgement was exercised (vacuity guard for the orchestrator) *)
Count(key) == LET c == TLCGet(4) IN TLCSet(4, (key :> (IF key \in DOMAIN c THEN c[key] ELSE 0) + 1) @@ c)

Has(e, f) == f \in DOMAIN e

(***************************************************************************)
(* comparing a specified accessor record with an observed one              *)
(***************************************************************************)
WillEq(s, r) == /\ s.has = r.has
                /\ (s.has => \A x \in DOMAIN s.val : x \in DOMAIN r.val /\ s.val[x] = r.val[x])
ObsDiff(spec, real) ==
  {x \in DOMAIN spec : IF x \notin DOMAIN real THEN TRUE
                       ELSE IF x = "Will" THEN ~WillEq(spec[x], real[x])
                       ELSE spec[x] # real[x]}

(* the observed record cut down to the keys the specification knows for type t *)
Adopt(t, real) ==
  LET keys == DOMAIN NewObs(t) \cap DOMAIN real IN
  [x \in keys |-> IF x = "Will" /\ real[x].has
                  THEN [has |-> TRUE, val |-> [y \in WillKeys \cap DOMAIN real[x].val |-> real[x].val[y]]]
                  ELSE real[x]]

RealType(obs) == IF \E t \in 0..16 : TypeName(t) = obs.type THEN TypeNum(obs.type) ELSE -1

(* bystanders: every live handle other than h still reports its model state *)
(* the will of CONNECT g is the packet h the event names: Will() shows that packet live *)
WillOf(g, h) == pool[g].t = 1 /\ pool[g].o["Will"].has /\ "ref" \in DOMAIN pool[g].o["Will"] /\ pool[g].o["Will"].ref = h
Bystanders(e, h) ==
  IF ~Has(e, "all") THEN TRUE
  ELSE \A j \in 1..Len(e.all) :
         LET g == e.all[j][1]  ob == e.all[j][2] IN
         IF g = h \/ g \notin DOMAIN pool THEN TRUE
         ELSE LET d == ObsDiff(pool[g].o, ob) \ (IF WillOf(g, h) THEN {"Will"} ELSE {}) IN
              /\ NoteIf(d # {}, "C14", "a packet changed although the operation did not name it", [h |-> g, keys |-> d])
              /\ NoteIf(d # {} /\ prog.fam = "seq", "C06", "a packet returned earlier changed when a later frame of the stream was read", [h |-> g, keys |-> d])
              /\ NoteIf(d # {} /\ pool[g].t = 0, "C16", "an Undefined packet no longer carries the bytes of its frame", [h |-> g])
              \* a packet that was returned for a frame of flen bytes never holds more list elements than that (C05)
              /\ (IF "flen" \in DOMAIN pool[g]
                  THEN \A x \in {"Filters", "ReasonCodes", "SubscriptionIDs", "UserProperties"} \cap DOMAIN ob :
                         NoteIf(Len(ob[x]) > pool[g].flen, "C05", "a returned packet grew beyond the size of its frame while later frames were read",
                                [h |-> g, list |-> x, n |-> Len(ob[x]), len |-> pool[g].flen])
                  ELSE TRUE)

(* derived observations that ride on every event carrying obs *)
WFCheck(t, o, obs) ==
  IF HasWF(t) /\ Has(obs, "WF")
  THEN NoteIf(obs.WF # WF(t, o), "C17", "WellFormed disagrees with the documented rules", [wf |-> obs.WF])
  ELSE TRUE

(***************************************************************************)
(*                       events other than Read                            *)
(***************************************************************************)
KeepStream == UNCHANGED svars
KeepAux == UNCHANGED <<from, contig, enc, memo, diag, smemo, ncall, bystate>>
(* the event names handle h: its last encoding no longer stands for an untouched packet *)
Touch(h) == enc' = IF h \in DOMAIN enc THEN [enc EXCEPT ![h].clean = FALSE] ELSE enc
(* what was set on handle h through the API (wanted), else what the model holds for it *)
Drop(h) == wanted' = [x \in DOMAIN wanted \ {h} |-> wanted[x]]
SetOf(h) == IF h \in DOMAIN wanted THEN wanted[h] ELSE pool[h].o
WillOfW(g, h) == g \in DOMAIN wanted /\ "Will" \in DOMAIN wanted[g] /\ wanted[g]["Will"].has /\ "ref" \in DOMAIN wanted[g]["Will"] /\ wanted[g]["Will"].ref = h
RelinkW(w, h) == [g \in DOMAIN w |-> IF g # h /\ WillOfW(g, h) /\ h \in DOMAIN w
                                      THEN [w[g] EXCEPT !["Will"] = [@ EXCEPT !.val = WillSnapshot(w[h]), !.stale = TRUE]]
                                      ELSE w[g]]
KeepAuxTouch(h) == UNCHANGED <<from, contig, memo, diag, smemo, ncall, bystate>> /\ Touch(h)

(* the accessor record as a key: the will compared by what it carries, not by which handle it is *)
StateKey(o) == IF "Will" \in DOMAIN o
               THEN [o EXCEPT !["Will"] = IF @.has THEN [has |-> TRUE, val |-> @.val] ELSE [has |-> FALSE]]
               ELSE o

(* C07 on the level of a whole stream: the first delivery of a byte string that is neither fragmented, faulty nor handed over *)
(* through another reader fixes, call by call, whether a packet comes back and of which type; every other delivery of the   *)
(* same bytes in the same program must give the same outcome at the same call (compared while the stream is not cut short). *)
StreamMemo(e, other) ==
  LET k1 == ncall + 1
      out == <<e.ok, IF Has(e, "type") THEN e.type ELSE "">>
      whole == limit = Len(wire) /\ fate = "eof"
  IN /\ ncall' = k1
     /\ IF ~other /\ whole
        THEN /\ smemo' = IF wire \in DOMAIN smemo
                         THEN (IF Len(smemo[wire]) = ncall THEN [smemo EXCEPT ![wire] = Append(@, out)] ELSE smemo)
                         ELSE IF ncall = 0 THEN (wire :> <<out>>) @@ smemo ELSE smemo
        ELSE /\ UNCHANGED smemo
             /\ IF whole /\ wire \in DOMAIN smemo /\ Len(smemo[wire]) >= k1
                THEN NoteIf(smemo[wire][k1] # out, "C07",
                            "the same stream, delivered another way, gave another outcome at the same call than when delivered in one piece",
                            [call |-> k1, plain |-> smemo[wire][k1], now |-> out])
                ELSE TRUE

EvReset(e) ==
  /\ prog' = [id |-> e.prog, fam |-> e.fam]
  /\ pool' = EmptyFn /\ enc' = EmptyFn /\ memo' = EmptyFn /\ diag' = EmptyFn /\ wanted' = EmptyFn
  /\ smemo' = EmptyFn /\ ncall' = 0 /\ bystate' = EmptyFn
  /\ from' = 0 /\ contig' = TRUE
  /\ wire' = <<>> /\ limit' = 0 /\ fate' = "eof" /\ with' = FALSE /\ pos' = 0 /\ rp' = Idle

EvNew(e) ==
  LET t == TypeNum(e.type) IN
  /\ IF e.how = "new"
     THEN /\ New(e.h, t)
          /\ (Has(e, "obs") => /\ NoteIf(ObsDiff(NewObs(t), e.obs) # {}, "C12", "fresh packet does not report the constructor defaults",
                                          [keys |-> ObsDiff(NewObs(t), e.obs)])
                               /\ WFCheck(t, NewObs(t), e.obs))
     ELSE Put(e.h, [t |-> t, o |-> IF Has(e, "obs") THEN Adopt(t, e.obs) ELSE NewObs(t)])   \* zero value: adopted
  /\ IF e.how = "new" THEN wanted' = (e.h :> NewObs(t)) @@ wanted ELSE Drop(e.h)
  /\ Bystanders(e, e.h)
  /\ KeepStream /\ KeepAuxTouch(e.h) /\ UNCHANGED prog

EvPub(e) ==
  LET o == PubObs(e.args[1], e.args[2], e.args[3]) IN
  /\ Pub(e.h, e.args[1], e.args[2], e.args[3])
  /\ wanted' = (e.h :> o) @@ wanted
  /\ (Has(e, "obs") => /\ NoteIf(ObsDiff(o, e.obs) # {}, "C12", "Pub does not report its arguments", [keys |-> ObsDiff(o, e.obs)])
                       /\ WFCheck(3, o, e.obs))
  /\ Bystanders(e, e.h)
  /\ KeepStream /\ KeepAuxTouch(e.h) /\ UNCHANGED prog

(* arguments that are handles of TopicFilter values the program keeps: the call receives a copy of the value *)
CallArgs(e) == IF Has(e, "nargs") THEN e.nargs       \* an argument beyond TLC's integers, normalised by the driver to 2^31 - 1
               ELSE IF Has(e, "refs")
               THEN [i \in 1..Len(e.args) |-> <<pool[e.args[i].h].o["Filter"], pool[e.args[i].h].o["Options"]>>]
               ELSE e.args
EvCall(e) ==
  LET h == e.h IN
  IF h \in DOMAIN pool /\ Known(pool[h].t, pool[h].o, e.m)
  THEN LET t == pool[h].t
           wp == IF e.m = "SetWill" THEN pool[e.args[1].h].o ELSE EmptyFn
           o2 == Apply(t, pool[h].o, e.m, CallArgs(e), wp)
           d == IF Has(e, "obs") THEN ObsDiff(o2, e.obs) ELSE {}
           \* CONNECT packets whose will is the packet h: Will() reports h live, and the will is no longer "as attached"
           Relink(pl) == [g \in DOMAIN pl |->
                            IF g # h /\ WillOf(g, h)
                            THEN [pl[g] EXCEPT !.o["Will"] = [@ EXCEPT !.val = WillSnapshot(pl[h].o), !.stale = TRUE]]
                            ELSE pl[g]]
       IN /\ IF d = {} THEN pool' = Relink([pool EXCEPT ![h] = [t |-> @.t, o |-> o2]])       \* = PacketAPI!Call(h, e.m, e.args), wills relinked
             ELSE /\ Note("C12", "accessors after the call differ from the record-of-fields model", [m |-> e.m, keys |-> d])
                  /\ pool' = Relink([pool EXCEPT ![h] = [t |-> @.t, o |-> Adopt(t, e.obs)]])
          /\ wanted' = IF h \in DOMAIN wanted
                     THEN LET wpw == IF e.m = "SetWill" THEN SetOf(e.args[1].h) ELSE EmptyFn IN
                          RelinkW([wanted EXCEPT ![h] = Apply(t, wanted[h], e.m, CallArgs(e), wpw)], h)
                     ELSE wanted
          /\ (Has(e, "obs") => WFCheck(t, o2, e.obs))
          /\ Bystanders(e, h)
          /\ KeepStream /\ KeepAuxTouch(h) /\ UNCHANGED prog
  ELSE /\ Note("SPEC", "call not known to the model", [m |-> e.m])
       /\ Drop(h)
       /\ pool' = IF h \in DOMAIN pool /\ Has(e, "obs") THEN [pool EXCEPT ![h] = [t |-> @.t, o |-> Adopt(pool[h].t, e.obs)]] ELSE pool
       /\ KeepStream /\ KeepAuxTouch(h) /\ UNCHANGED prog

(* WriteTo: one frame, truthful count (C10); a valid frame carrying the model *)
(* state (C02); no state change and the same bytes as before (C11)            *)
EvWriteTo(e) ==
  LET h == e.h
      t == pool[h].t
      o == pool[h].o
      built == h \in DOMAIN wanted    \* the packet was built through constructors and setters (C02 speaks of those; a decoded packet keeps
                                     \* whatever its frame carried, reserved header flags included, and is judged by C16 / C12 instead)
      os == SetOf(h)                 \* what was set (differs from o only after a divergence already noted under C12)
      bytes == Concat(e.offered)
      good == e.wkind = "all"
  IN /\ NoteIf(~WriteOutcomeOK(t, bytes, e.writes, e.n, e.err, e.strN), "C10",
               "WriteTo does not hand over one frame with a truthful count", [n |-> e.n, err |-> e.err, strN |-> e.strN])
     /\ NoteIf(good /\ t # 0 /\ Has(e, "strN0") /\ e.strN0 >= 0 /\ e.err = "nil" /\ e.strN0 # e.n, "C10",
               "String() printed another size before the packet was written", [strN0 |-> e.strN0, n |-> e.n])
     /\ (Has(e, "obs") => NoteIf(ObsDiff(o, e.obs) # {}, "C11", "WriteTo changed what the accessors return", [keys |-> ObsDiff(o, e.obs)]))
     /\ IF good /\ Len(bytes) >= 2
        THEN LET rl == VBIRead(Tail(bytes)) IN
             NoteIf(rl.kind # "value" \/ (rl.kind = "value" /\ (~rl.minimal \/ rl.val # Len(bytes) - 1 - rl.width)), "C15",
                    "remaining length not written as the minimal form of the number of bytes that follow", [head |-> SubSeq(bytes, 1, IF Len(bytes) < 6 THEN Len(bytes) ELSE 6), len |-> Len(bytes)])
        ELSE TRUE
     /\ (good /\ t # 0 /\ InC02Domain(t, os) /\ Framed(bytes) => Count("c02-judged"))
     /\ (~good => Count("write-faulty"))
     /\ IF good /\ t # 0 /\ InC02Domain(t, os) /\ Framed(bytes)
        THEN LET d == StrictDecode(bytes) IN
             IF ~d.ok THEN /\ NoteIf(built, "C02", "frame rejected by the strict reading of MQTT v5.0", [why |-> d.why, at |-> d.at, frame |-> bytes])
                           /\ NoteIf(prog.fam \in {"api", "reuse"}, "C12", "the encoded frame does not reflect the final state of the setters", [why |-> d.why])
             ELSE /\ NoteIf(built /\ d.pkt.t # t, "C02", "frame carries another packet type", [t |-> d.pkt.t])
                  /\ NoteIf(prog.fam \in {"api", "reuse"} /\ d.pkt.t = t /\ ObsDiff(os, ObsOfWire(d.pkt)) # {}, "C12",
                            "the encoded frame does not reflect the final state of the setters", [keys |-> ObsDiff(os, ObsOfWire(d.pkt))])
                  /\ NoteIf(built /\ d.pkt.t = t /\ ObsDiff(os, ObsOfWire(d.pkt)) # {}, "C02", "frame does not carry the values that were set",
                            [keys |-> IF d.pkt.t = t THEN ObsDiff(os, ObsOfWire(d.pkt)) ELSE {}, frame |-> bytes])
        ELSE TRUE
     /\ IF good /\ h \in DOMAIN enc /\ enc[h].o = o
        THEN NoteIf(enc[h].bytes # bytes, "C11", "the same packet was written as different bytes", [a |-> enc[h].bytes, b |-> bytes])
        ELSE TRUE
     /\ IF good /\ h \in DOMAIN enc /\ enc[h].clean /\ "flen" \in DOMAIN pool[h] /\ Len(bytes) > 0 /\ Len(enc[h].bytes) > 0
        THEN NoteIf(bytes[1] # enc[h].bytes[1], "C16", "a decoded packet no operation has named no longer writes the first byte of its frame",
                    [first |-> enc[h].bytes[1], now |-> bytes[1]])
        ELSE TRUE
     /\ IF good /\ h \in DOMAIN enc /\ enc[h].clean /\ "rt" \in DOMAIN enc[h]
        THEN NoteIf(enc[h].bytes # bytes, "C01", "the decoded packet is no longer written as the bytes it was read from",
                    [frame |-> enc[h].bytes, now |-> bytes])
        ELSE TRUE
     /\ IF good /\ h \in DOMAIN enc /\ enc[h].clean /\ enc[h].o # o
        THEN NoteIf(enc[h].bytes # bytes, "C11", "a packet no operation has named since its last encoding is now written as different bytes",
                    [a |-> enc[h].bytes, b |-> bytes])
        ELSE TRUE
     /\ enc' = IF good
               THEN IF h \in DOMAIN enc /\ enc[h].clean /\ "rt" \in DOMAIN enc[h]
                    THEN enc                                                    \* still owed: the bytes it was read from
                    ELSE (h :> [o |-> o, bytes |-> bytes, clean |-> TRUE]) @@ enc
               ELSE enc
     \* equal packets are written as equal bytes, whatever was called on them before (C11): the first complete encoding of a
     \* packet in a given state (type, accessor record) fixes the bytes for every packet that is later in that state
     /\ IF good /\ e.err = "nil" /\ t \in 1..15 /\ (t # 1 \/ ~os["Will"].has \/ "stale" \notin DOMAIN os["Will"] \/ ~os["Will"].stale)
        THEN IF <<t, StateKey(os)>> \in DOMAIN bystate
             THEN /\ NoteIf(bystate[<<t, StateKey(os)>>] # bytes, "C11",
                            "two packets in the same state are written as different bytes (it depends on what was called on them before)",
                            [a |-> bystate[<<t, StateKey(os)>>], b |-> bytes])
                  /\ UNCHANGED bystate
             ELSE bystate' = (<<t, StateKey(os)>> :> bytes) @@ bystate
        ELSE UNCHANGED bystate
     /\ NoteIf(good /\ e.err = "nil" /\ t # 0 /\ prog.fam \in {"api", "reuse"} /\ ~Framed(bytes), "C12",
               "the bytes written after the setter history are not one frame", [n |-> Len(bytes)])
     /\ Bystanders(e, h)
     /\ UNCHANGED <<pool, wanted, smemo, ncall, from, contig, memo, diag, prog>> /\ KeepStream

EvWriteN(e) ==
  LET h == e.h  o == pool[h].o IN
  /\ NoteIf(Len(e.outs) # 1, "C11", "repeated encodings of one packet differ", [distinct |-> Len(e.outs)])
  /\ IF h \in DOMAIN enc /\ enc[h].o = o /\ Len(e.outs) >= 1
     THEN NoteIf(enc[h].bytes # e.outs[1], "C11", "the same packet was written as different bytes", [a |-> enc[h].bytes, b |-> e.outs[1]])
     ELSE TRUE
  /\ (Has(e, "obs") => NoteIf(ObsDiff(o, e.obs) # {}, "C11", "WriteTo changed what the accessors return", [keys |-> ObsDiff(o, e.obs)]))
  /\ enc' = IF Len(e.outs) >= 1 THEN (h :> [o |-> o, bytes |-> e.outs[1], clean |-> TRUE]) @@ enc ELSE enc
  /\ UNCHANGED <<pool, wanted, smemo, ncall, bystate, from, contig, memo, diag, prog>> /\ KeepStream

(* values the caller keeps and reuses: a TopicFilter (type 16), a []TopicFilter passed with "..." (type 17) *)
EvNewFilter(e) ==
  LET o == [Filter |-> e.args[1], Options |-> e.args[2]] IN
  /\ Put(e.h, [t |-> 16, o |-> o]) /\ Drop(e.h)
  /\ (Has(e, "obs") => NoteIf(ObsDiff(o, e.obs) # {}, "C12", "TopicFilter does not report its arguments", [keys |-> ObsDiff(o, e.obs)]))
  /\ Bystanders(e, e.h)
  /\ KeepStream /\ KeepAux /\ UNCHANGED prog
EvSlice(e) ==
  /\ Put(e.h, [t |-> 17, o |-> [Items |-> e.args]]) /\ Drop(e.h)
  /\ KeepStream /\ KeepAux /\ UNCHANGED prog
EvSliceSet(e) ==          \* the caller writes into its own slice: no packet may change (no re-synchronisation: the packets keep
  /\ Bystanders(e, 0)    \* the values that were set, so a later WriteTo is still judged against them)
  /\ pool' = [pool EXCEPT ![e.h].o["Items"] = IF e.n >= Len(@) THEN Append(@, e.args[1]) ELSE [@ EXCEPT ![e.n + 1] = e.args[1]]]
  /\ UNCHANGED wanted
  /\ KeepStream /\ KeepAux /\ UNCHANGED prog
EvCallSpread(e) ==        \* p.M(xs...) with xs the caller's slice or the list another packet's accessor returned
  LET h == e.h  t == pool[h].t
      xs == IF e.key = "" THEN pool[e.from].o["Items"] ELSE pool[e.from].o[e.key]
      o2 == Apply(t, pool[h].o, e.m, xs, EmptyFn)
      d == IF Has(e, "obs") THEN ObsDiff(o2, e.obs) ELSE {}
  IN /\ NoteIf(d # {}, "C12", "accessors after the call differ from the record-of-fields model", [m |-> e.m, keys |-> d])
     /\ pool' = [pool EXCEPT ![h] = [t |-> @.t, o |-> o2]]     \* (a packet changed through its setters: no frame length bounds it any more)
     /\ wanted' = IF h \in DOMAIN wanted THEN [wanted EXCEPT ![h] = Apply(t, @, e.m, xs, EmptyFn)] ELSE wanted
     /\ Bystanders(e, h)
     /\ KeepStream /\ KeepAuxTouch(h) /\ UNCHANGED prog

(* p.Key()[n].M(args): a setter called on an element of the list an accessor returned (Filters()[0].SetFilter(..)) *)
EvCallElem(e) ==
  LET h == e.h  t == pool[h].t  o == pool[h].o
      el == o[e.key][e.n + 1]
      el2 == IF e.m = "SetFilter" THEN <<e.args[1], el[2]>> ELSE IF e.m = "SetOptions" THEN <<el[1], e.args[1]>> ELSE el
      o2 == [o EXCEPT ![e.key] = [@ EXCEPT ![e.n + 1] = el2]]
      d == IF Has(e, "obs") THEN ObsDiff(o2, e.obs) ELSE {}
  IN /\ NoteIf(d # {}, "C12", "accessors after a setter on a list element differ from the record-of-fields model", [m |-> e.m, keys |-> d])
     /\ pool' = [pool EXCEPT ![h] = [t |-> @.t, o |-> o2]]     \* (a packet changed through its setters: no frame length bounds it any more)
     /\ wanted' = IF h \in DOMAIN wanted /\ e.n + 1 <= Len(wanted[h][e.key])
                THEN LET wl == wanted[h][e.key][e.n + 1]
                         wl2 == IF e.m = "SetFilter" THEN <<e.args[1], wl[2]>> ELSE IF e.m = "SetOptions" THEN <<wl[1], e.args[1]>> ELSE wl
                     IN [wanted EXCEPT ![h][e.key] = [@ EXCEPT ![e.n + 1] = wl2]]
                ELSE wanted
     /\ (Has(e, "obs") => WFCheck(t, o2, e.obs))
     /\ Bystanders(e, h)
     /\ KeepStream /\ KeepAuxTouch(h) /\ UNCHANGED prog

EvStream(e) ==
  /\ wire' = e.bytes /\ limit' = e.limit /\ fate' = e.fate /\ with' = e.with /\ pos' = 0 /\ rp' = Idle
  /\ from' = e.from /\ contig' = (e.contig /\ e.limit = Len(e.bytes))
  /\ ncall' = 0 /\ UNCHANGED <<pool, wanted, smemo, bystate, enc, memo, diag, prog>>

(* String / Dump / WellFormed on a live packet: total (C19), consistent (C17), *)
(* read-only (C11)                                                             *)
EvDiag(e) ==
  LET h == e.h  t == pool[h].t  o == pool[h].o IN
  /\ IF e.hasWF /\ HasWF(t)
     THEN /\ NoteIf(e.wfErr = WF(t, o), "C17", "WellFormed disagrees with the documented rules", [wfErr |-> e.wfErr])
          /\ NoteIf(e.malformed # e.wfErr, "C17", "String and WellFormed disagree", [malformed |-> e.malformed, wfErr |-> e.wfErr])
     ELSE TRUE
  /\ (Has(e, "obs") => NoteIf(ObsDiff(o, e.obs) # {}, "C11", "String/Dump changed what the accessors return", [keys |-> ObsDiff(o, e.obs)]))
  \* as-built rendering of String (spec/MQLib.tla): a difference is a drift note, never a verdict
  /\ IF Has(e, "first") /\ e.strN >= 0 /\ (t # 14 \/ "ReasonString" \in DOMAIN o) /\ ~Has(e, "digested")
     THEN LET wantstr == StringOf(t, o, e.first, e.strN) IN
          NoteIf(e.string # wantstr, "DRIFT", "String() differs from the as-built rendering", [type |-> t, got |-> e.string, want |-> wantstr])
     ELSE TRUE
  /\ IF Has(e, "dump") /\ ~Has(e, "digested") /\ DumpPredictable(t, o)
     THEN LET wantdump == DumpOf(t, o) IN
          NoteIf(e.dump # wantdump, "DRIFT", "Dump() differs from the as-built rendering", [type |-> t, got |-> e.dump, want |-> wantdump])
     ELSE TRUE
  /\ diag' = (h :> [string |-> e.string, dump |-> e.dump]) @@ diag
  /\ Bystanders(e, h)
  /\ UNCHANGED <<pool, wanted, smemo, ncall, bystate, from, contig, enc, memo, prog>> /\ KeepStream

(* credentials replaced by [empty?, length] *)
Redact(o) == [o EXCEPT !["Username"] = <<Len(@)>>, !["Password"] = <<Len(@)>>,
                        !["Will"] = IF @.has THEN [has |-> TRUE, val |-> @.val] ELSE [has |-> FALSE]]   \* (not which handle it is)

EvCmpDiag(e) ==
  LET a == e.hs[1]  b == e.hs[2] IN
  /\ IF a \in DOMAIN diag /\ b \in DOMAIN diag /\ pool[a].t = 1 /\ pool[b].t = 1
        /\ Redact(pool[a].o) = Redact(pool[b].o)
     THEN /\ NoteIf(diag[a].dump # diag[b].dump, "C18", "Dump depends on the content of the credentials", [hs |-> e.hs])
          /\ NoteIf(diag[a].string # diag[b].string, "C18", "String depends on the content of the credentials", [hs |-> e.hs])
     ELSE Note("SPEC", "CmpDiag on packets that are not low-equivalent", [hs |-> e.hs])
  /\ UNCHANGED <<pool, wanted, smemo, ncall, bystate, from, contig, enc, memo, diag, prog>> /\ KeepStream

EvFilter(e) ==
  LET f == <<e.args[1], e.args[2]>> IN
  /\ NoteIf(e.wfErr = FilterWF(f), "C17", "TopicFilter.WellFormed disagrees with the documented rule", [wfErr |-> e.wfErr])
  /\ NoteIf(e.filter # e.args[1] \/ e.options # e.args[2], "C12", "TopicFilter does not report its arguments", [f |-> f])
  /\ UNCHANGED <<pool, wanted, smemo, ncall, bystate, from, contig, enc, memo, diag, prog>> /\ KeepStream

(* direct UnmarshalBinary of a buffer: the result is adopted; totality and   *)
(* list bounds are judged (C04, C05)                                         *)
(* memory: bytes allocated during the decode against 256 x frame length + 1 MiB (measured worst legitimate ratio ~54) *)
AllocBound(e, len) ==
  IF ~Has(e, "alloc") THEN TRUE
  ELSE NoteIf(e.alloc \div 256 > len + 4096, "C05", "decoding allocated far more than proportional to the frame",     \* (no 32-bit overflow)
              [alloc |-> e.alloc, len |-> len])
ListBound(e, len) ==
  IF ~Has(e, "lens") THEN TRUE
  ELSE \A x \in DOMAIN e.lens :
         NoteIf(e.lens[x] > len, "C05", "decoded packet holds more list elements than the frame has bytes", [list |-> x, n |-> e.lens[x], len |-> len])

EvUnmarshal(e) ==
  LET t == TypeNum(e.type) IN
  /\ (~e.err => ListBound(e, Len(e.data)))
  /\ AllocBound(e, Len(e.data))
  /\ pool' = (e.h :> [t |-> t, o |-> IF Has(e, "obs") THEN Adopt(t, e.obs) ELSE NewObs(t)]) @@ pool
  /\ Bystanders(e, e.h)
  /\ Touch(e.h) /\ Drop(e.h) /\ UNCHANGED <<smemo, ncall, bystate, from, contig, memo, diag, prog>> /\ KeepStream

(* after a divergence the model takes over what was observed, so that one defect is reported once *)
Resync(e) == IF ~Has(e, "all") THEN pool
             ELSE [g \in DOMAIN pool |->
                     IF \E j \in 1..Len(e.all) : e.all[j][1] = g
                     THEN [pool[g] EXCEPT !.o = Adopt(pool[g].t, e.all[CHOOSE j \in 1..Len(e.all) : e.all[j][1] = g][2])]
                     ELSE pool[g]]
EvScribble(e) ==
  /\ Bystanders(e, 0)
  /\ pool' = Resync(e)
  /\ UNCHANGED <<wanted, smemo, ncall, bystate, from, contig, enc, memo, diag, prog>> /\ KeepStream

(* the caller overwrote a slice it got from an accessor of e.h: that packet may change, no other *)
EvScribbleSlice(e) ==
  /\ Bystanders(e, e.h)
  /\ pool' = IF Has(e, "all") /\ e.h \in DOMAIN pool /\ \E j \in 1..Len(e.all) : e.all[j][1] = e.h
             THEN [pool EXCEPT ![e.h].o = Adopt(pool[e.h].t, e.all[CHOOSE j \in 1..Len(e.all) : e.all[j][1] = e.h][2])]
             ELSE pool
  /\ enc' = [x \in DOMAIN enc \ {e.h} |-> enc[x]]
  /\ Drop(e.h)
  /\ UNCHANGED <<smemo, ncall, bystate, from, contig, memo, diag, prog>> /\ KeepStream

PanicProp(op) == IF op \in {"ReadPacket", "Unmarshal"} THEN "C04"
                 ELSE IF op = "Diag" THEN "C19"
                 ELSE IF op = "WellFormed" THEN "C17"            \* raised while the driver observed the packet: see project.go
                 ELSE IF op \in {"WriteTo", "WriteN"} THEN "C10"
                 ELSE "C12"
(* the frame a ReadPacket call that never returned was about to read *)
PendingFrame == LET g == SubSeq(wire, pos + 1, limit)  hd == Header(g) IN
                IF hd.hdr /\ hd.total <= Len(g) THEN SubSeq(g, 1, hd.total) ELSE <<>>
EvPanic(e) ==
  /\ Note(PanicProp(e.op), "panic", [op |-> e.op, site |-> e.site, msg |-> e.msg])
  /\ IF e.op = "ReadPacket" /\ PendingFrame # <<>>
     THEN LET vd == Verdict(PendingFrame) IN
          /\ NoteIf(vd.kind = "accept", "C03", "valid frame made the decoder panic", [site |-> e.site, frame |-> PendingFrame])
          /\ NoteIf(vd.kind = "reject", "C09", "frame that must be rejected made the decoder panic instead of returning an error",
                    [site |-> e.site, cls |-> vd.cls, frame |-> PendingFrame])
          /\ NoteIf(from # 0 /\ from \in DOMAIN enc /\ enc[from].bytes = PendingFrame, "C01", "own output made the decoder panic",
                    [site |-> e.site, frame |-> PendingFrame])
     ELSE TRUE
  /\ UNCHANGED <<pool, wanted, smemo, ncall, bystate, from, contig, enc, memo, diag, prog>> /\ KeepStream
EvBudget(e) ==
  /\ Note("C05", "decoding exceeded the work bound of the frame", [steps |-> e.steps, limit |-> e.limit])
  /\ UNCHANGED <<pool, wanted, smemo, ncall, bystate, from, contig, enc, memo, diag, prog>> /\ KeepStream
AbortProp(op) == IF op = "Diag" THEN "C19"
                 ELSE IF op \in {"WriteTo", "WriteN"} THEN "C10"
                 ELSE IF op = "Conc" THEN "C13"
                 ELSE IF op \in {"Call", "New", "Pub"} THEN "C12"
                 ELSE "C05"                                      \* ReadPacket, Unmarshal, unknown
EvAbort(e) ==
  /\ Note(AbortProp(e.op), "operation did not return within the time / memory budget", [why |-> e.why, op |-> e.op])
  /\ UNCHANGED <<pool, wanted, smemo, ncall, bystate, from, contig, enc, memo, diag, prog>> /\ KeepStream
EvOther(e) == UNCHANGED <<pool, wanted, smemo, ncall, bystate, from, contig, enc, memo, diag, prog>> /\ KeepStream

(* variable byte integers through hook H1 (C15).  The driver also logs the answer of its own   *)
(* transcription of VBI4 / VBIRead (used by the exhaustive Go sweep); it is validated here.     *)
EvVBIEnc(e) ==
  /\ NoteIf(e.bytes # VBI(e.v), "C15", "value not written in the unique minimal form", [v |-> e.v, bytes |-> e.bytes])
  /\ NoteIf(e.ref # VBI4(e.v) \/ VBI(e.v) # VBI4(e.v), "HARNESS", "transcription of VBI4 disagrees with the specification", [v |-> e.v])
  /\ UNCHANGED <<pool, wanted, smemo, ncall, bystate, from, contig, enc, memo, diag, prog>> /\ KeepStream

EvVBIDec(e) ==
  LET r == VBIRead(e.bytes)
      agree == e.mem.ok = e.stream.ok /\ (e.mem.ok => e.mem.val = e.stream.val)
  IN
  /\ NoteIf(~agree, "C15", "streaming and in-memory decoder disagree", [bytes |-> e.bytes, mem |-> e.mem, stream |-> e.stream])
  /\ (IF Has(e, "others")
      THEN \A j \in 1..Len(e.others) :
             LET x == e.others[j] IN
             NoteIf(x.ok # e.stream.ok \/ (x.ok /\ (x.val # e.stream.val \/ x.n # e.stream.n)), "C15",
                    "the streaming decoder's answer depends on how the reader delivers the bytes (zero-length reads, io.EOF with the last byte)",
                    [bytes |-> e.bytes, delivery |-> j, got |-> x, contiguous |-> e.stream])
      ELSE TRUE)
  /\ IF r.kind = "reject"
     THEN NoteIf(e.mem.ok \/ e.stream.ok, "C15", "sequence that must be rejected was decoded",
                 [bytes |-> e.bytes, why |-> r.why, mem |-> e.mem.ok, stream |-> e.stream.ok])
     ELSE IF r.minimal
     THEN /\ NoteIf(~(e.mem.ok /\ e.mem.val = r.val /\ e.mem.width = r.width), "C15",
                     "in-memory decoder: wrong value or wrong number of bytes advanced", [bytes |-> e.bytes, mem |-> e.mem, wanted |-> r])
          /\ NoteIf(~(e.stream.ok /\ e.stream.val = r.val /\ e.stream.n = r.width), "C15",
                     "streaming decoder: wrong value or wrong number of bytes read", [bytes |-> e.bytes, stream |-> e.stream, wanted |-> r])
     ELSE TRUE
  /\ NoteIf((e.ref.kind = 1) # (r.kind = "value")
            \/ (r.kind = "value" /\ (e.ref.val # r.val \/ e.ref.width # r.width \/ e.ref.minimal # r.minimal)),
            "HARNESS", "transcription of VBIRead disagrees with the specification", [bytes |-> e.bytes])
  /\ UNCHANGED <<pool, wanted, smemo, ncall, bystate, from, contig, enc, memo, diag, prog>> /\ KeepStream

(* concurrent read-only operations: every goroutine completed, produced the sequential bytes, changed nothing *)
EvConc(e) ==
  /\ \A j \in 1..Len(e.results) :
        LET r == e.results[j] IN
        /\ NoteIf(~r.ok /\ r.op # "ReadFrame", "C13", "a concurrent read-only operation failed", [op |-> r.op, h |-> r.h])
        /\ IF r.op \in {"WriteTo", "ReadPacket"} /\ r.h \in DOMAIN enc
           THEN /\ NoteIf(~r.same \/ r.bytes # enc[r.h].bytes, "C13", "concurrent WriteTo differs from the sequential encoding", [op |-> r.op, h |-> r.h])
                /\ NoteIf(r.op = "WriteTo" /\ (~r.same \/ r.bytes # enc[r.h].bytes), "C11",
                          "the same packet was written as different bytes (while other goroutines used it read-only)", [h |-> r.h])
           ELSE TRUE
  /\ \A j \in 1..Len(e.results) :
        LET r == e.results[j] IN
        IF r.op = "ReadFrame"
        THEN LET vd == Verdict(r.frame) IN
             /\ NoteIf(~r.same, "C13", "concurrent ReadPacket calls on private streams did not all give the same packet", [frame |-> r.frame])
             /\ NoteIf(vd.kind = "accept" /\ (~r.ok \/ RealType(r.obs) # vd.pkt.t \/ ObsDiff(ObsOfWire(vd.pkt), r.obs) # {}), "C13",
                       "a concurrent ReadPacket returned another packet than the sequential reading of its frame", [frame |-> r.frame])
             /\ NoteIf(vd.kind = "reject" /\ r.ok, "C13", "a concurrent ReadPacket accepted a frame that must be rejected", [frame |-> r.frame])
        ELSE TRUE
  /\ \A i, j \in 1..Len(e.results) :
        LET a == e.results[i]  b == e.results[j] IN
        IF i < j /\ a.op = "WriteTo" /\ b.op = "WriteTo" /\ a.h = b.h
        THEN /\ NoteIf(a.bytes # b.bytes, "C13", "two concurrent WriteTo calls on one packet gave different bytes", [h |-> a.h])
             /\ NoteIf(a.bytes # b.bytes, "C11", "the same packet was written as different bytes (by two goroutines at once)", [h |-> a.h])
        ELSE TRUE
  /\ Bystanders(e, 0)
  /\ UNCHANGED <<pool, wanted, smemo, ncall, bystate, from, contig, enc, memo, diag, prog>> /\ KeepStream
(* the first encoding of one program, executed in several worker processes (different hash seeds) *)
EvXProc(e) ==
  /\ NoteIf(\E j \in 2..Len(e.outs) : e.outs[j] # e.outs[1], "C11", "another process wrote the same packet as different bytes",
            [n |-> Len(e.outs)])
  /\ UNCHANGED <<pool, wanted, smemo, ncall, bystate, from, contig, enc, memo, diag, prog>> /\ KeepStream
EvRace(e) ==
  /\ Note("C13", "data race reported by the Go race detector", [sites |-> e.sites])
  /\ UNCHANGED <<pool, wanted, smemo, ncall, bystate, from, contig, enc, memo, diag, prog>> /\ KeepStream

(* an event on a handle the model does not hold (the driver and the model disagree on what exists): noted, skipped *)
NeedsHandle == {"Diag", "WriteTo", "WriteN", "CallSpread", "CallElem", "ScribbleSlice"}
Step(e) ==
  IF e.ev \in NeedsHandle /\ Has(e, "h") /\ e.h \notin DOMAIN pool
  THEN /\ Note("SPEC", "event names a handle the model does not hold", [ev |-> e.ev, h |-> e.h])
       /\ UNCHANGED <<pool, wanted, smemo, ncall, bystate, from, contig, enc, memo, diag, prog>> /\ KeepStream
  ELSE
  IF e.ev = "Reset" THEN EvReset(e)
  ELSE IF e.ev = "New" THEN EvNew(e)
  ELSE IF e.ev = "Pub" THEN EvPub(e)
  ELSE IF e.ev = "Call" THEN EvCall(e)
  ELSE IF e.ev = "WriteTo" THEN EvWriteTo(e)
  ELSE IF e.ev = "WriteN" THEN EvWriteN(e)
  ELSE IF e.ev = "Stream" THEN EvStream(e)
  ELSE IF e.ev = "NewFilter" THEN EvNewFilter(e)
  ELSE IF e.ev = "Slice" THEN EvSlice(e)
  ELSE IF e.ev = "SliceSet" THEN EvSliceSet(e)
  ELSE IF e.ev = "CallSpread" THEN EvCallSpread(e)
  ELSE IF e.ev = "CallElem" THEN EvCallElem(e)
  ELSE IF e.ev = "Diag" THEN EvDiag(e)
  ELSE IF e.ev = "CmpDiag" THEN EvCmpDiag(e)
  ELSE IF e.ev = "Filter" THEN EvFilter(e)
  ELSE IF e.ev = "Unmarshal" THEN EvUnmarshal(e)
  ELSE IF e.ev = "Scribble" THEN EvScribble(e)
  ELSE IF e.ev = "ScribbleSlice" THEN EvScribbleSlice(e)
  ELSE IF e.ev = "Panic" THEN EvPanic(e)
  ELSE IF e.ev = "Budget" THEN EvBudget(e)
  ELSE IF e.ev = "Abort" THEN EvAbort(e)
  ELSE IF e.ev = "VBIEnc" THEN EvVBIEnc(e)
  ELSE IF e.ev = "VBIDec" THEN EvVBIDec(e)
  ELSE IF e.ev = "Conc" THEN EvConc(e)
  ELSE IF e.ev = "Race" THEN EvRace(e)
  ELSE IF e.ev = "XProc" THEN EvXProc(e)
  ELSE EvOther(e)                                  \* Done, Skip, Buf

(* dispatch and header flags (C16), for every complete frame g that yielded a packet of type rt *)
DispatchCheck(e, g, rt) ==
  LET t1 == g[1] \div 16 IN
  /\ NoteIf(rt # t1, "C16", "packet type does not follow the first byte", [first |-> g[1], got |-> rt])
  /\ NoteIf(t1 >= 1 /\ Has(e, "reenc") /\ ~e.reencFailed /\ Len(e.reenc) > 0 /\ e.reenc[1] # g[1], "C16",
            "writing the decoded packet does not reproduce the first byte", [first |-> g[1], reenc |-> e.reenc[1]])
  /\ NoteIf(t1 = 3 /\ rt = 3 /\ (e.obs.Duplicate # Bit(g[1], 3) \/ e.obs.Retain # Bit(g[1], 0)
                                  \/ (QoSOf(g[1] % 16) # e.obs.QoS)),
            "C16", "PUBLISH does not report DUP/QoS/RETAIN of the first byte", [first |-> g[1]])
  /\ NoteIf(t1 = 0 /\ rt = 0 /\ e.obs.Data # SubSeq(g, Header(g).hl + 1, Len(g)), "C16",
            "Undefined does not carry the bytes of the frame", [first |-> g[1]])

(***************************************************************************)
(*   a ReadPacket call: RP_Call, (RP_Read ; T_Return)*, RP_Return          *)
(***************************************************************************)
KeepObj == UNCHANGED <<pool, wanted, smemo, ncall, bystate, prog, from, contig, enc, memo, diag>>

ReadCall(e) ==                                       \* k = 0
  /\ RP_Call
  /\ k' = 1 /\ ph' = "req" /\ l' = l /\ KeepObj

ReadReq(e) ==                                        \* the implementation offers a buffer
  LET c == e.calls[k] IN
  /\ IF RP_ReadGuard(c.req) THEN RP_Read(c.req)
     ELSE /\ Note("C06", "Read request larger than what is known to belong to the frame",
                  [req |-> c.req, need |-> KnownNeed(Got), got |-> rp.got])
          /\ RP_ReadEff(c.req)
  /\ ph' = "ret" /\ UNCHANGED <<k, l>> /\ KeepObj

ReadRet(e) ==                                        \* the transport answers
  LET c == e.calls[k] IN
  /\ IF T_ReturnGuard(c.n, c.e) THEN T_Return(c.n, c.e)
     ELSE /\ Note("HARNESS", "scripted reader left the io.Reader contract of its plan", [call |-> c])
          /\ T_ReturnEff(c.n, c.e)
  /\ ph' = "req" /\ k' = k + 1 /\ l' = l /\ KeepObj

Outcome(e) == [ok |-> e.ok, type |-> IF Has(e, "type") THEN e.type ELSE "", obs |-> IF Has(e, "obs") THEN e.obs ELSE EmptyFn,
               reenc |-> IF Has(e, "reenc") THEN e.reenc ELSE <<>>]

ReadReturn(e) ==                                     \* k = Len(calls) + 1
  LET g == Got
      complete == Complete(g)
      res == IF e.ok THEN "pkt" ELSE "err"
      faulty == rp.fault # "nil" \/ limit < Len(wire)
      judge == complete /\ rp.fault \in {"nil", "eof"}            \* the frame itself decides the outcome
      v == IF judge /\ prog.fam # "many" THEN Verdict(g) ELSE [kind |-> "none"]   \* long lists: only the resource bounds are judged
      t1 == IF Len(g) > 0 THEN g[1] \div 16 ELSE -1
      rt == IF Has(e, "obs") THEN RealType(e.obs) ELSE -1
      src == IF from # 0 /\ from \in DOMAIN pool THEN [t |-> pool[from].t, o |-> SetOf(from)] ELSE [t |-> -1]
      rtrip == judge /\ src.t >= 0 /\ InC01Domain(src.t, src.o) /\ from \in DOMAIN enc /\ enc[from].bytes = g
  IN
  /\ Count("Read") /\ Count("verdict-" \o v.kind)
  /\ Count(IF Len(e.calls) > 3 THEN "read-fragmented" ELSE "read-contiguous")
  /\ (faulty => Count("read-faulty")) /\ (rtrip => Count("roundtrip")) /\ (judge /\ g \in DOMAIN memo => Count("memo-compared"))
  /\ NoteIf(e.ok = e.nilpkt, "C04", "ReadPacket returned neither exactly a packet nor exactly an error", [ok |-> e.ok, nilpkt |-> e.nilpkt])
  /\ NoteIf(~e.ok /\ ~e.nilpkt /\ faulty, "C08", "an error came together with a non-nil packet value", [typednil |-> e.typednil])
  /\ NoteIf(~MayReturn(res, e.isE, e.isEOF),
            IF faulty THEN "C08"
            ELSE IF \A j \in 1..Len(e.calls) : e.calls[j].n = e.calls[j].req
                 THEN "C06"      \* every request was satisfied in full: the call itself left part of the frame on the stream
            ELSE "C07",          \* a short read was taken for the whole
            IF e.ok THEN "packet returned although the frame was not obtained completely"
            ELSE "error does not report what happened on the stream",
            [got |-> rp.got, fault |-> rp.fault, ok |-> e.ok, isE |-> e.isE, isEOF |-> e.isEOF, hdr |-> Header(g)])
  /\ NoteIf(e.pos1 # pos, "HARNESS", "consumed count differs from the logged reads", [pos1 |-> e.pos1, pos |-> pos])
  \* verdict of the frame
  /\ NoteIf(prog.fam = "seq" /\ v.kind = "accept" /\ ~e.ok, "C06", "a frame of the sequence was not returned by its call", [frame |-> g, pos |-> rp.start])
  /\ NoteIf(prog.fam = "vbi" /\ v.kind = "accept" /\ ~e.ok, "C15", "a frame with a multi-byte remaining length was not read as announced",
            [head |-> SubSeq(g, 1, IF Len(g) < 6 THEN Len(g) ELSE 6)])
  /\ IF v.kind = "accept"
     THEN IF ~e.ok THEN Note("C03", "valid frame rejected", [frame |-> g, err |-> IF Has(e, "errtext") THEN e.errtext ELSE ""])
          ELSE /\ NoteIf(rt # v.pkt.t, "C03", "valid frame decoded to another packet type", [wanted |-> v.pkt.t, got |-> rt])
               /\ NoteIf(rt = v.pkt.t /\ ObsDiff(ObsOfWire(v.pkt), e.obs) \cap {"SubscriptionIDs", "SubscriptionID"} # {}, "C15",
                         "a subscription identifier (variable byte integer) decoded to another value", [frame |-> g])
               /\ NoteIf(rt = v.pkt.t /\ ObsDiff(ObsOfWire(v.pkt), e.obs) # {}, "C03", "accessors differ from the values the frame carries",
                         [keys |-> IF rt = v.pkt.t THEN ObsDiff(ObsOfWire(v.pkt), e.obs) ELSE {}, frame |-> g])
     ELSE IF v.kind = "reject"
     THEN NoteIf(e.ok, "C09", "frame that must be rejected was accepted", [cls |-> v.cls, why |-> v.why, at |-> v.at, frame |-> g])
     ELSE TRUE
  \* dispatch and header flags (C16), for every frame that yields a packet
  /\ IF judge /\ e.ok /\ Has(e, "obs") THEN DispatchCheck(e, g, rt) ELSE TRUE
  \* the guarded reads of the decoder (hook H2) against the field map of a valid frame: as-built, a drift note only
  /\ IF v.kind = "accept" /\ e.ok /\ Has(e, "trail") /\ v.pkt.t # 0
     THEN LET bodylen == Len(g) - v.hdr
              seen == {e.trail[j][1] : j \in {i \in 1..Len(e.trail) : e.trail[i][2] = 0 /\ e.trail[i][1] < bodylen}}
              want == FieldStarts(v.fm, v.hdr, v.pkt.t)
          IN NoteIf(seen # want, "DRIFT", "the decoder's guarded reads do not start at the field boundaries of the frame",
                    [frame |-> g, seen |-> seen, fields |-> want])
     ELSE TRUE
  \* round trip of a packet built through the API (C01)
  /\ IF rtrip
     THEN IF ~e.ok THEN Note("C01", "own output not readable", [frame |-> g, err |-> IF Has(e, "errtext") THEN e.errtext ELSE ""])
          ELSE /\ NoteIf(rt # src.t, "C01", "round trip changed the packet type", [wanted |-> src.t, got |-> rt])
               /\ NoteIf(rt = src.t /\ ObsDiff(src.o, e.obs) # {}, "C01", "round trip changed accessor values",
                         [keys |-> IF rt = src.t THEN ObsDiff(src.o, e.obs) ELSE {}, frame |-> g])
               /\ NoteIf(e.reencFailed \/ e.reenc # g, "C01", "decoded packet is not written as the same bytes", [frame |-> g, reenc |-> e.reenc])
     ELSE TRUE
  \* same frame, same outcome (C07 for fragmented deliveries, C14 for history)
  /\ IF judge /\ g \in DOMAIN memo
     THEN LET m0 == memo[g] IN
          NoteIf(m0.ok # e.ok \/ (e.ok /\ (m0.type # Outcome(e).type \/ m0.reenc # Outcome(e).reenc
                                          \/ ObsDiff(m0.obs, Outcome(e).obs) # {})),
                 IF contig THEN "C14" ELSE "C07",
                 "the same frame gave another outcome than on its first, contiguous read", [frame |-> g, ok0 |-> m0.ok, ok |-> e.ok])
     ELSE TRUE
  /\ memo' = IF judge /\ g \notin DOMAIN memo /\ contig THEN (g :> Outcome(e)) @@ memo ELSE memo
  /\ (judge /\ e.ok => ListBound(e, Len(g)))
  /\ AllocBound(e, IF Header(g).hdr THEN Header(g).total ELSE Len(g) + 8)
  \* the decoded packet becomes a live handle
  /\ LET conforms == v.kind = "accept" /\ rt = v.pkt.t /\ ObsDiff(ObsOfWire(v.pkt), e.obs) = {}
         o2 == IF conforms THEN ObsOfWire(v.pkt) ELSE Adopt(rt, e.obs)        \* re-synchronise after a divergence
     IN /\ pool' = IF e.ok /\ Has(e, "obs") /\ rt >= 0 THEN (e.h :> [t |-> rt, o |-> o2, flen |-> Len(g)]) @@ pool ELSE pool
        /\ (e.ok /\ Has(e, "obs") /\ rt >= 0 /\ v.kind = "accept" /\ rt = v.pkt.t => WFCheck(rt, ObsOfWire(v.pkt), e.obs))
        /\ enc' = IF e.ok /\ Has(e, "reenc") /\ ~e.reencFailed /\ rt >= 0
                  THEN (e.h :> (IF rtrip /\ e.reenc = g THEN [o |-> o2, bytes |-> e.reenc, clean |-> TRUE, rt |-> TRUE]      \* rt: read back from a
                                ELSE [o |-> o2, bytes |-> e.reenc, clean |-> TRUE])) @@ enc                              \* packet of the C01 domain
                  ELSE enc
  /\ Bystanders(e, e.h)                              \* reading a frame changes no packet returned earlier
  /\ RP_ReturnEff
  /\ k' = 0 /\ ph' = "req" /\ l' = l + 1
  /\ Drop(e.h)
  /\ StreamMemo(e, ~contig)
  /\ UNCHANGED <<prog, from, contig, diag, bystate>>

(* ReadPacket was given a *bufio.Reader (or another standard reader) on top of the transport: the library's own      *)
(* Read calls are not visible, so the call is judged as a whole, exactly as C06 / C08 state it: everything the          *)
(* transport will deliver from the current position is avail; a frame that is completely available must be taken        *)
(* whole and decided by its content; a stream that ends or fails inside the frame must give an error wrapping the cause. *)
ReadWrapped(e) ==
  LET avail == SubSeq(wire, e.pos0 + 1, limit)
      hd == Header(avail)
      whole == hd.hdr /\ hd.total <= Len(avail)
      g == IF whole THEN SubSeq(avail, 1, hd.total) ELSE avail
      v == IF whole THEN Verdict(g) ELSE [kind |-> "none"]
      rt == IF Has(e, "obs") THEN RealType(e.obs) ELSE -1
  IN
  /\ Count("Read") /\ Count("read-wrapped") /\ Count("verdict-" \o v.kind) /\ (~whole => Count("read-faulty"))
  /\ NoteIf(e.ok = e.nilpkt, "C04", "ReadPacket returned neither exactly a packet nor exactly an error", [ok |-> e.ok, nilpkt |-> e.nilpkt])
  /\ IF whole
     THEN /\ NoteIf(e.pos1 - e.pos0 # hd.total, "C06", "ReadPacket did not take exactly one frame out of the reader",
                     [took |-> e.pos1 - e.pos0, framelen |-> hd.total, frame |-> g])
          /\ NoteIf(v.kind = "accept" /\ ~e.ok, "C03", "valid frame rejected", [frame |-> g])
          /\ NoteIf(prog.fam = "vbi" /\ v.kind = "accept" /\ ~e.ok, "C15", "a frame with a multi-byte remaining length was not read as announced",
                    [head |-> SubSeq(g, 1, IF Len(g) < 6 THEN Len(g) ELSE 6)])
          /\ NoteIf(v.kind = "accept" /\ e.ok /\ (rt # v.pkt.t \/ ObsDiff(ObsOfWire(v.pkt), e.obs) # {}), "C03",
                    "accessors differ from the values the frame carries", [frame |-> g])
          /\ NoteIf(v.kind = "reject" /\ e.ok, "C09", "frame that must be rejected was accepted", [cls |-> v.cls, frame |-> g])
          /\ (IF e.ok /\ Has(e, "obs") /\ hd.total = Len(g) /\ ~hd.bad THEN DispatchCheck(e, g, rt) ELSE TRUE)
          /\ (IF g \in DOMAIN memo
              THEN NoteIf(memo[g].ok # e.ok, "C07", "the same frame gave another outcome through a buffered reader", [frame |-> g])
              ELSE TRUE)
     ELSE /\ NoteIf(e.ok, "C08", "packet returned although the stream ended or failed inside its frame", [avail |-> Len(avail)])
          /\ NoteIf(~e.ok /\ fate = "E" /\ ~hd.bad /\ ~e.isE, "C08", "error does not wrap the transport failure", [avail |-> Len(avail)])
          /\ NoteIf(~e.ok /\ Len(avail) = 0 /\ fate = "eof" /\ ~e.isEOF, "C08", "end of stream on a frame boundary not reported as io.EOF", [pos |-> e.pos0])
  /\ pool' = IF e.ok /\ Has(e, "obs") /\ rt >= 0 THEN (e.h :> [t |-> rt, o |-> Adopt(rt, e.obs)]) @@ pool ELSE pool
  /\ enc' = IF e.ok /\ Has(e, "reenc") /\ ~e.reencFailed /\ rt >= 0
            THEN (e.h :> [o |-> Adopt(rt, e.obs), bytes |-> e.reenc, clean |-> TRUE]) @@ enc ELSE enc
  /\ Bystanders(e, e.h)
  /\ pos' = IF e.pos1 >= 0 /\ e.pos1 <= limit THEN e.pos1 ELSE pos
  /\ rp' = [rp EXCEPT !.st = "done", !.start = e.pos0, !.got = e.pos1 - e.pos0]
  /\ UNCHANGED <<wire, limit, fate, with, prog, from, contig, memo, diag, bystate>>
  /\ StreamMemo(e, TRUE)
  /\ Drop(e.h)
  /\ k' = 0 /\ ph' = "req" /\ l' = l + 1

ReadEvent(e) ==
  IF Has(e, "wrapped") /\ e.wrapped THEN ReadWrapped(e) ELSE
  IF k = 0 THEN ReadCall(e)
  ELSE IF k <= Len(e.calls) THEN (IF ph = "req" THEN ReadReq(e) ELSE ReadRet(e))
  ELSE ReadReturn(e)

(***************************************************************************)
Init ==
  /\ l = 1 /\ k = 0 /\ ph = "req"
  /\ prog = [id |-> "", fam |-> ""]
  /\ pool = EmptyFn /\ enc = EmptyFn /\ memo = EmptyFn /\ diag = EmptyFn /\ wanted = EmptyFn
  /\ smemo = EmptyFn /\ ncall = 0 /\ bystate = EmptyFn
  /\ from = 0 /\ contig = TRUE
  /\ wire = <<>> /\ limit = 0 /\ fate = "eof" /\ with = FALSE /\ pos = 0 /\ rp = Idle
  /\ TLCSet(1, <<>>) /\ TLCSet(2, EmptyFn) /\ TLCSet(3, 0) /\ TLCSet(4, EmptyFn)

Next ==
  /\ l <= N
  /\ TLCSet(3, l)
  /\ LET e == Trace[l] IN
     IF e.ev = "Read" THEN ReadEvent(e)
     ELSE /\ Count(e.ev)
          /\ Step(e)
          /\ l' = l + 1 /\ k' = 0 /\ ph' = "req"

Spec == Init /\ [][Next]_tvars

(* all lines consumed; notes written out for the orchestrator *)
TraceDone ==
  /\ ndJsonSerialize(NotesFile, <<[summary |-> TRUE, lines |-> N, reached |-> TLCGet(3),
                                   counts |-> [p \in DOMAIN TLCGet(2) |-> TLCGet(2)[p]] @@ [none |-> 0],
                                   cover |-> [p \in DOMAIN TLCGet(4) |-> TLCGet(4)[p]] @@ [none |-> 0]]>> \o TLCGet(1))
  /\ TLCGet(3) = N \/ N = 0
=============================================================================
